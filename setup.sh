#!/bin/bash
# MANIFEST.setup_cmd: build the harness from files on disk only (offline).
set -e
cd "$(dirname "$0")/harness"
export CARGO_NET_OFFLINE=true
cargo build --release --offline --workspace --features verif 2>&1 | tail -n 3
