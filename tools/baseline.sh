#!/bin/bash
# Runs the repository's own test-suite with the verif guard OFF (nothing in the repository enables
# the `verif` feature) and compares the outcome with /root/.vp/BASELINE.json's stable_pass list.
# exit 0 iff every stable_pass test still passes.
set -u
cd /repo
export CARGO_NET_OFFLINE=true
OUT=${1:-/tmp/verif-baseline}
mkdir -p "$OUT"
if cargo nextest --version >/dev/null 2>&1 && [ -f /w/lib/nextest.toml ]; then
  cargo nextest run --workspace --no-fail-fast --tool-config-file pb:/w/lib/nextest.toml --profile pb --test-threads 8 --offline >"$OUT/run.log" 2>&1
  JUNIT=$(find target/nextest/pb -name junit.xml 2>/dev/null | head -1)
  python3 - "$JUNIT" <<'EOF'
import sys, json, xml.etree.ElementTree as ET
junit = sys.argv[1]
base = json.load(open('/root/.vp/BASELINE.json'))
want = set(base['stable_pass'])
passed = set()
failed = set()
for tc in ET.parse(junit).getroot().iter('testcase'):
    cls = tc.get('classname', '')
    name = tc.get('name', '')
    bad = any(ch.tag in ('failure', 'error') for ch in tc)
    # nextest classname is "<package>::<binary>" or "<package>"; the baseline ids look like
    # "<package>::<binary>::<test path>" with the lib binary's name omitted
    ids = {f"{cls}::{name}"}
    parts = cls.split('::')
    if len(parts) == 2 and parts[0].replace('-', '_') == parts[1].replace('-', '_'):
        ids.add(f"{parts[0]}::{name}")
    ids.add(f"{parts[0]}::{name}")
    for i in ids:
        (failed if bad else passed).add(i)
missing = sorted(t for t in want if t not in passed)
print(f"stable_pass tests: {len(want)}; passing now: {len(want) - len(missing)}; not passing: {len(missing)}")
for t in missing[:40]:
    print("  NOT PASSING:", t, "(failed)" if t in failed else "(not run / name mismatch)")
sys.exit(1 if missing else 0)
EOF
else
  cargo test --workspace --no-fail-fast --offline >"$OUT/run.log" 2>&1
  grep -E "^test result" "$OUT/run.log" | awk '{p+=$4; f+=$6} END {print "passed",p,"failed",f; exit (f>0)}'
fi
