#!/bin/bash
# Confirm a seeded change in a scratch worktree: the demo fails with it and passes without it, and
# the repository's own tests (stable baseline list) still pass with it.
# usage: confirm_seed.sh <worktree> <demo test target (e.g. demo_c02)> [extra cargo packages for the suite]
set -u
WT=$1; DEMO=$2; PKG=${3:-shuttle}
cd "$WT" || exit 2
export CARGO_TARGET_DIR="$WT/target" CARGO_NET_OFFLINE=true
OUT="$WT/SEED/confirm.log"
mkdir -p "$WT/SEED"
# the demonstration is a top-level integration test of the shuttle crate
[ "$PKG" != shuttle ] || [ -f "shuttle/tests/$DEMO.rs" ] || cp "SEED/$DEMO.rs" "shuttle/tests/$DEMO.rs"
git diff --quiet || true
if git diff --quiet -- . ':!shuttle/tests' ':!*/tests/demo_*'; then git apply SEED/patch.diff; fi
{
echo "== demo WITH the change (expected: fails)"
cargo test -p "$PKG" --offline --test "$DEMO" -j4 -- --test-threads=2 2>&1 | grep -E "^test |test result|panicked" | head -20
echo "== demo WITHOUT the change (expected: passes)"
# (never `git stash` here: the stash stack is shared by all worktrees of a repository)
git apply -R SEED/patch.diff && {
  cargo test -p "$PKG" --offline --test "$DEMO" -j4 -- --test-threads=2 2>&1 | grep -E "^test |test result|panicked" | head -20
  git apply SEED/patch.diff
}
git diff -- . ':!shuttle/tests' ':!*/tests/demo_*' | diff -q - SEED/patch.diff >/dev/null && echo "worktree change == SEED/patch.diff" || echo "WARNING: worktree change differs from SEED/patch.diff"
echo "== repository test suite WITH the change (stable baseline list)"
cargo nextest run --workspace --no-fail-fast --tool-config-file pb:/w/lib/nextest.toml --profile pb --test-threads ${SUITE_THREADS:-4} --offline -E "not binary($DEMO)" >"$WT/SEED/suite.log" 2>&1
JUNIT=$(find "$WT/target/nextest/pb" -name junit.xml | head -1)
python3 - "$JUNIT" <<'EOF'
import sys, json, xml.etree.ElementTree as ET
base = json.load(open('/root/.vp/BASELINE.json')); want = set(base['stable_pass'])
passed=set(); failed=set()
for tc in ET.parse(sys.argv[1]).getroot().iter('testcase'):
    cls = tc.get('classname',''); name = tc.get('name','')
    bad = any(ch.tag in ('failure','error') for ch in tc)
    for i in {f"{cls}::{name}", f"{cls.split('::')[0]}::{name}"}:
        (failed if bad else passed).add(i)
missing = sorted(t for t in want if t not in passed)
print(f"stable_pass: {len(want)}; passing with the change: {len(want)-len(missing)}; not passing: {len(missing)}")
for t in missing[:20]: print("  NOT PASSING:", t, "(failed)" if t in failed else "(not run)")
EOF
} > "$OUT" 2>&1
cat "$OUT"
