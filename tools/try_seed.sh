#!/bin/bash
# usage: try_seed.sh <patch> <check ids...> : apply a seeded change to /repo, run the quick checks, undo it
P=$1; shift
git -C /repo apply "$P" || { echo "patch does not apply"; exit 2; }
trap 'git -C /repo checkout -- .; git -C /repo status --short' EXIT
for id in "$@"; do
  echo "=== $id (quick) with $(basename $(dirname $P))/$(basename $P)"
  ./check "$id" --tier "${TIER:-quick}" 2>&1 | grep -v "^KNOWN-FINDING" | cut -c1-400 | tail -${LINES_OUT:-8}
done
