#!/bin/bash
# usage: try_seed_iso.sh <repo worktree with the seeded change applied> <check ids...>
# Runs the quick checks against a scratch worktree WITHOUT touching /repo or /verif's evidence: a copy
# of the harness is pointed at the worktree, built in its own target directory and told to write its
# evidence/replays under <worktree>/VH/out. Remove <worktree>/VH afterwards (the script does).
set -u
WT=$(realpath "$1"); shift
VH="$WT/VH"
mkdir -p "$VH/out"; rm -rf "$VH/out"/*
rsync -a --delete --exclude 'target*' /verif/harness "$VH/"
find "$VH/harness" -name Cargo.toml -exec sed -i "s#/repo/#$WT/#g" {} +
cp "$WT/Cargo.lock" "$VH/harness/Cargo.lock" 2>/dev/null || cp /repo/Cargo.lock "$VH/harness/Cargo.lock"
export CARGO_NET_OFFLINE=true CARGO_TARGET_DIR="${SEED_TARGET_DIR:-/tmp/vh-target}" VERIF_OUT_DIR="$VH/out"
for id in "$@"; do
  PKG=vcore; BIN=verif
  case "$id" in C19) PKG=vtokio; BIN=vtokio ;; C20) PKG=vwrap; BIN=vwrap ;; esac
  ( cd "$VH/harness" && cargo build --release --offline -p $PKG --features verif > "$VH/build-$id.log" 2>&1 ) || { echo "$id: build failed"; tail -20 "$VH/build-$id.log"; continue; }
  echo "=== $id (${TIER:-quick}) against $WT"
  "$CARGO_TARGET_DIR/release/$BIN" "$id" --tier "${TIER:-quick}" 2>&1 | grep -v "^KNOWN-FINDING" | cut -c1-400 | tail -${LINES_OUT:-8}
done
[ -n "${KEEP_VH:-}" ] || rm -rf "$VH"
