#!/usr/bin/env python3
"""Writes /verif/seeded/<id>/meta.json from the table below (kept in one place so that the
calibration record is reviewable)."""
import json, os
T = {
 "C01": dict(property="C01", run_checks=["C01","C10"],
   change="RandomDataSource::reinitialize no longer re-seeds the data rng with the seed it returns for executions after the first (refactor into a two-arm match)",
   needs="a RandomDataSource-backed scheduler (random/PCT/URW/round-robin) running more than one execution; the recorded execution must be the second or later one; the body must draw from shuttle::rand",
   demo="demo_c01.rs: failing_schedule_replays_identically: replaying the schedule of a failing later iteration returns different rand values",
   catches={"C01":"replay-differs:draw-value","C10":"reported-seed-does-not-reproduce:draws"}),
 "C04": dict(property="C04", run_checks=["C04"],
   change="Atomic::swap rewritten as load followed by store (each with its own scheduling point): swap is no longer indivisible",
   needs="swap racing with another write of the same atomic and the scheduler running that write between swap's two halves",
   demo="demo_c04.rs: three check_dfs tests (two concurrent swaps hand each value on once; swap does not lose a store; test-and-set has one owner)",
   catches={"C04":"unsound:result-not-allowed (outcome not allowed by the sequential model); also trace-nonconformant:Swap"}),
 "C05": dict(property="C05", run_checks=["C05"],
   change="Condvar::wait: a consumed notify_one epoch is struck from other waiters' lists only when it is at the front of their list",
   needs=">=3 waiters on one condvar, >=2 notify_one calls, a waiter arriving between two notify_one calls while two earlier signalled waiters have not run yet, and that late waiter scheduled first; no predicate loop masking the extra return",
   demo="demo_c05.rs: W waiters, K<W notify_one: at most K waits may return before the final notify_all",
   catches={"C05":"unsound:deadlock-not-allowed and trace-nonconformant:Wait"}),
 "C06": dict(property="C06", run_checks=["C06"],
   change="mpsc sender_must_block ignores queued blocked senders for try_send (the clause doubles as the slot reservation of a woken blocked sender)",
   needs="bounded or rendezvous channel, two sender handles: one blocked in send and woken, the other calling try_send before the woken one runs",
   demo="demo_c06.rs: capacity exceeded / value accepted but never received / send completed before its recv started",
   catches={"C06":"unsound:deadlock-not-allowed, unsound:result-not-allowed"}),
 "C07": dict(property="C07", run_checks=["C07"],
   change="thread_fn takes the join waiter before running the thread-local destructors and unblocks that captured waiter afterwards",
   needs="a thread with an initialised thread_local whose destructor has a scheduling point, a joiner that reaches join() while the joinee is suspended inside that destructor",
   demo="demo_c07.rs: join_while_joinee_runs_tls_destructor_{dfs,random}, nested variant: spurious deadlock",
   catches={"C07":"thread-program-failed (Deadlock of a well-formed thread tree)"}),
 "C08": dict(property="C08", run_checks=["C08"],
   change="schedule() reads has_yielded without clearing it; the reset moved to the run loop, which the same-task fast path of maybe_yield never reaches",
   needs="an explicit yield after which the scheduler picks the same task again, and one more scheduling point of that task before it is switched out; a scheduler that looks at is_yielding",
   demo="demo_c08.rs: recording scheduler + program log: is_yielding iff a yield was logged since the previous decision",
   catches={"C08":"yield-flag-spurious"}),
 "C09": dict(property="C09", run_checks=["C09"],
   change="DfsScheduler::new_execution: exhausted levels trimmed and the two early returns merged so that the tree-exhausted test only applies without an iteration bound: a bounded run silently restarts",
   needs="an iteration bound strictly larger than the number of schedules (or prefixes under ContinueAfter)",
   demo="demo_c09.rs: 20-schedule program with bounds None/7/20/21/50",
   catches={"C09":"dfs-iteration-bound (max_iterations=n+1 ran n+1 executions)"}),
 "C10": dict(property="C10", run_checks=["C10","C01"],
   change="same slip as C01's seed, produced independently: RandomDataSource::reinitialize does not re-seed after the first execution",
   needs="iteration index >= 1, body drawing from shuttle::rand, re-run from the reported seed and comparison of draw values",
   demo="demo_c10.rs: iteration k re-run with check_random_with_seed(f, seed_k, 1)",
   catches={"C10":"reported-seed-does-not-reproduce:draws","C01":"replay-differs:draw-value"}),
}

T.update({
 "C11": dict(property="C11", run_checks=["C11"],
   change="PctScheduler::new_execution assigns the shuffled priorities through HashMap::values_mut() (iteration order of a randomly keyed std HashMap) instead of by task id",
   needs="two runs of PctScheduler::new_from_seed with the same seed compared with each other; divergence starts at iteration 2",
   demo="demo_c11.rs: 6 threads x 3 steps, 60 iterations, depth 1/2/3, two runs per seed must schedule identically",
   catches={"C11":"same-seed-differs"}),
 "C12": dict(property="C12", run_checks=["C12"],
   change="persist_failure treats its 'already persisted at this schedule length' marker as 'something was persisted in this execution': the second call (from Execution::run) is suppressed although the schedule grew after the panic hook fired",
   needs="a failing body whose panic hook fires at a different schedule length than the final failure (a task panicking while holding a Shuttle lock guard: the release during unwinding is a scheduling point; or a caught panic followed by a real failure), persistence Print/File, and the emitted schedule actually replayed",
   demo="demo_c12.rs: FailurePersistence::File, replay of the last emitted schedule file ends in 'schedule ended early'",
   catches={"C12":"emitted-schedule-does-not-reproduce"}),
 "C13": dict(property="C13", run_checks=["C13"],
   change="current::reset_step_count records context_switches() (decisions only) instead of the schedule length (decisions + draws)",
   needs="a tight step bound, a reset_step_count call, random draws made before that reset, and draws-before plus steps-after reaching the bound while neither phase alone does",
   demo="demo_c13.rs: FailAfter/ContinueAfter variants under random, PCT, round-robin, DFS",
   catches={"C13":"reset-step-count-ignored (after strengthening: the reset bodies had no random draws; now 8 shapes with draws before/after the reset, FailAfter and ContinueAfter)"}),
 "C14": dict(property="C14", run_checks=["C14"],
   change="ExecutionState::cleanup clears LABELS / TASK_ID_TO_TAGS before tearing down the tasks and lazy statics instead of after",
   needs="a destructor that writes a label and runs during teardown (a guard on the stack of a task of an abandoned execution, or a lazy static's Drop), targeting a task id the next execution reads before setting",
   demo="demo_c14.rs: abandonment by step bound, by the scheduler, lazy static whose Drop sets a label",
   catches={"C14":"dirty-initial-world:label written by a destructor of the previous execution, cleanup-residue (after strengthening: instrumented values now write labels from their destructors and every execution checks at entry that none is visible)"}),
 "C15": dict(property="C15", run_checks=["C15"],
   change="mpsc recv_internal pushes the receiver's clock onto the receiver_clock queue before merging the timestamp of the message it just took",
   needs="bounded non-rendezvous channel, two distinct sender tasks, a send that consumes a slot freed by receiving another sender's message, and a comparison of the sender's clock with the receiver's",
   demo="demo_c15.rs: two senders on sync_channel(1|2), check_dfs",
   catches={"C15":"after-op-clock-not-dominated:recv-frees-send"}),
})

T.update({
 "C16": dict(property="C16", run_checks=["C16"],
   change="deserialize_schedule's guard on the declared task-id bit width rewritten as an exclusive range test: a width of usize::BITS (needed for ids >= 2^63) is now rejected",
   needs="a schedule containing a task id with the top bit set (e.g. usize::MAX)",
   demo="demo_c16.rs: task_ids_at_full_bit_width_roundtrip",
   catches={"C16":"roundtrip-rejected:as-produced / :line-breaks-removed / :whitespace-added (boundary task ids are part of the generator)"}),
 "C17": dict(property="C17", run_checks=["C17"],
   change="Task::wake sets the `woken` flag only when the task is not sleeping (else branch), so a wake that unblocks a task asleep in a nested block_on is not remembered for the enclosing poll",
   needs="within one poll of a spawned task: register the task's waker with an event A, then sleep in a nested block_on for event B; A fires during that sleep; the poll then returns Pending",
   demo="demo_c17.rs: join!(rx_a.await, blocking_recv(rx_b)) in a spawned task; hand-written waker variant",
   catches={"C17":"(after strengthening) lost wake-up / deadlock of a terminating program: new op JoinNested(a, b) = join of a pend with a blocking wait inside one poll, in generated programs and four fixed programs; before that nested block_on was only generated in the main thread and never in the same poll as a waker registration"}),
 "C18": dict(property="C18", run_checks=["C18"],
   change="Acquire::poll checks `semaphore.is_closed()` before `waiter.has_permits`: an acquisition that was already granted its permits fails with Closed if close() happened before its next poll",
   needs="a queued acquire that is granted permits by a release, then close(), then the poll",
   demo="demo_c18.rs",
   catches={"C18":"wrong-result:Poll (scripted FIFO model: granted acquisitions complete even after close)"}),
 "C19": dict(property="C19", run_checks=["C19"],
   change="tokio replacement mpsc try_recv reports Disconnected as soon as the channel is closed and no permit is available, without checking that nothing is in flight (dropped `&& self.is_empty()`)",
   needs="close() racing with a send that has been accepted but not yet delivered, drained through try_recv",
   demo="demo_c19.rs: close_then_try_recv_racing_with_send_{unbounded,bounded}",
   catches={"C19":"(after strengthening) scenario:mpsc-close-drain-first:panic (new scenario: close, drain with try_recv then recv, `Disconnected` must be final and every accepted send delivered); the hand-polled differential cannot see it because it has no task that is between 'accepted' and 'delivered'"}),
 "C20": dict(property="C20", run_checks=["C20"],
   change="parking_lot replacement try_lock_upgradable collapsed into `a.try_acquire(1).is_ok() && b.try_acquire(1).is_ok()`: the upgradable slot is not given back when the shared permit is refused",
   needs="try_upgradable_read failing at its second step (a writer holds the lock, or readers hold it with a writer queued), then another upgradable acquisition",
   demo="demo_c20.rs (in wrappers/parking_lot/parking_lot_impl/tests)",
   catches={"C20":"lock-program-deadlocked (try-variants must leave nothing behind)"}),
})

# second round (agents told which mechanism the first-round seed had used)
T.update({
 "C05b": dict(property="C05", run_checks=["C05","C03"],
   change="Task::unblock resets the whole ParkState (also a pending unpark token) instead of only the blocked_in_park flag",
   needs="an unpark delivered before the target blocks on something else (mutex hand-off, barrier, channel, condvar, semaphore) and parks afterwards",
   demo="demo_c05.rs: unpark then mutex hand-off / barrier / ... then park: must not deadlock",
   catches={"C05":"unsound:deadlock-not-allowed, trace-nonconformant:end:deadlock (after strengthening: the Park family only combined park with atomics; five corpus programs now put another blocking primitive between the unpark and the park)"}),
 "C06b": dict(property="C06", run_checks=["C06"],
   change="recv_internal: the 'empty and no senders left -> Disconnected' test moved below the rendezvous block, whose early return makes try_recv on a closed rendezvous channel report Empty",
   needs="capacity 0, non-blocking receive, every sender dropped",
   demo="demo_c06.rs",
   catches={"C06":"unsound:result-not-allowed, trace-nonconformant:TryRecv (caught as built)"}),
 "C07b": dict(property="C07", run_checks=["C07"],
   change="StorageMap::pop removes the slot instead of leaving a destroyed marker: a later access re-creates the thread-local",
   needs="a destructor that accesses an already destroyed thread-local of the same thread (or its own key: endless destructor loop)",
   demo="demo_c07.rs",
   catches={"C07":"thread-program-panicked (after strengthening: the check's own destructors access their key, so the seeded change made the check loop forever; an online guard in the initialisers now fails the execution on a second initialisation, and a per-item wall-clock watchdog turns any other hang into 'inconclusive')"}),
 "C20b": dict(property="C20", run_checks=["C20"],
   change="dashmap replacement remove_if evaluates the predicate under a read lock and removes under a separate write lock",
   needs="a writer of the same key between the two critical sections that turns the predicate false",
   demo="demo_c20.rs (wrappers/dashmap/dashmap_impl/tests)",
   catches={"C20":"not-linearisable (after strengthening: generated programs hit the window too rarely; a corpus of compound operations racing with writers of the same key was added and the quick budget raised)"}),
})

T.update({
 "C04b": dict(property="C04", run_checks=["C04"],
   change="integer atomics' fetch_add uses checked_add inside fetch_update and unwraps: an overflowing add panics instead of wrapping",
   needs="a fetch_add whose result leaves the type's range (wrapping counters, fetch_add(usize::MAX) as 'add -1', signed counter at MAX/MIN)",
   demo="demo_c04.rs",
   catches={"C04":"atomic-api-run-failed (caught by the atomic API differential against std, which drives boundary operands; that monitor had been added a few hours earlier)"}),
 "C12b": dict(property="C12", run_checks=["C12"],
   change="PortfolioRunner::run: `panic = thread.join().err()` in the join loop overwrites the remembered panic, so only the last member's result counts (patch.diff is rebased on the portfolio fix d3e0f46; patch_as_delivered.diff is the agent's original)",
   needs="a portfolio with >= 2 members in which a member other than the last fails and the last passes",
   demo="demo_c12.rs: body failing under DFS and passing under round-robin, every member order",
   catches={"C12":"portfolio-verdict, portfolio-payload (after strengthening: the portfolio child used random+PCT members, which both fail on a failing body; now deterministic members that fail / pass on one body, in every order and both stop modes; this also exposed the genuine defect fixed by d3e0f46)"}),
 "C14b": dict(property="C14", run_checks=["C14"],
   change="PooledContinuation::drop applies the ungraceful-shutdown `continuation_function_behavior` (default Leak) also on normal teardown: the closure of a task that was spawned but never ran is forgotten instead of dropped",
   needs="a never-scheduled task at the end of an execution (abandoned executions, or a detached un-polled future) whose closure captured something observable",
   demo="demo_c14.rs",
   catches={"C14":"values-survive-execution, values-outlive-run, dirty-initial-world:live values of the previous iteration, in-context-differs-from-alone (caught as built)"}),
 "C18b": dict(property="C18", run_checks=["C18"],
   change="BatchSemaphore::remove_waiter uses VecDeque::swap_remove_back: cancelling a queued acquisition moves the most recent waiter into its place",
   needs="strictly fair semaphore, >= 3 queued waiters, the cancelled one neither last nor second to last, and an observer of the survivors' order",
   demo="demo_c18.rs",
   catches={"C18":"queue-differs, wrong-wakeups (after strengthening: random scripts rarely queued three waiters before a cancel; structured scripts now queue 3-5 waiters, cancel every position and pairs, then release one permit at a time and poll everybody)"}),
 "C19b": dict(property="C19", run_checks=["C19"],
   change="tokio replacement Notify::notify_waiters marks and wakes each waiter in one loop (the wake contains a scheduling point), so a later waiter dropped in that window is neither in the list nor flagged",
   needs=">= 2 registered waiters, notify_waiters, and the victim (not the first) dropped between an earlier waiter's wake and its own turn",
   demo="demo_c19.rs (wrappers/tokio/impls/tokio/inner/tests)",
   catches={"C19":"scenario:notify-4:panic / notify-5:panic (after strengthening: scenarios with waiters aborted or giving up while notify_waiters broadcasts)"}),
})

T.update({
 "C17b": dict(property="C17", run_checks=["C17"],
   change="future::JoinHandle::poll stores the waker only if none is stored yet: a handle polled once and then awaited from another task keeps the first poller's waker",
   needs="a JoinHandle polled once while the target is still running, then polled with a different waker (moved to another task, or put into a combinator with its own waker), target completing after that",
   demo="demo_c17.rs",
   catches={"C17":"async-program-deadlocked (after strengthening, made before the change was run: JoinHandles were only ever awaited by their spawner; new op AwaitMoved polls the handle once and hands it to a helper task, in generated programs and three fixed ones)"}),
})
for k, v in T.items():
    d = f"/verif/seeded/{k}"
    if not os.path.isdir(d):
        continue
    old = {}
    p = f"{d}/meta.json"
    if os.path.exists(p):
        old = json.load(open(p))
    m = dict(old); m.update(v)
    if os.path.exists(f"{d}/confirm.log"):
        m["confirmed"] = "see confirm.log in this directory (tools/confirm_seed.sh or tools/confirm_fast.sh, run by the framework author in the scratch worktree: demo fails with / passes without the change; stable baseline test list passes with the change)"
    json.dump(m, open(p, "w"), indent=1)
print("ok")
