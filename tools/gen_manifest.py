#!/usr/bin/env python3
"""Generates /verif/MANIFEST.json from the table below (kept as a script so that the per-check
text stays in one reviewable place)."""
import json, os, sys

ROOT = os.path.dirname(os.path.dirname(os.path.abspath(__file__)))

MODEL_NOTE = ("trusted: the harness interpreter and the reference model in harness/vcore/src/model.rs "
              "(written from the documentation, calibrated on the unchanged tree); programs are bounded and sampled")

CHECKS = {
    "C02": dict(
        technique="runtime monitoring: exhaustive enumeration of the real runtime's choice tree per bounded program by an independent enumerator scheduler, observed outcome set compared with an independent sequential reference model (MUST ⊆ observed), missing outcomes diagnosed as named missing choice points",
        text="For every generated/hand-written bounded program whose whole schedule tree was enumerated on the real runtime, every outcome the sequential reference model requires was observed; misses are reported with the op kind whose missing choice point explains them. Exploration level: the quantifier over programs is sampled, the one over schedules is exhausted per program.",
        ref="DESIGN.md §4 C02", note=MODEL_NOTE),
    "C03": dict(
        technique="runtime monitoring: termination kind and blocked-task set of every observed execution (panic payload of Runner::run) checked against the termination the reference model allows; enumeration + random/PCT sampling of deadlock-prone programs; per-execution trace conformance incl. the exact blocked set at a deadlock; park programs also enumerated without spurious wake-ups",
        text="Every observed execution of deadlock-prone bounded programs ended the way the model allows (pass / deadlock naming exactly the unfinished tasks / diagnosed panic); no hang (step bound) was seen.",
        ref="DESIGN.md §4 C03", note=MODEL_NOTE),
    "C04": dict(
        technique="runtime monitoring: shadow holder sets asserted at every acquisition, per-execution outcome membership in the reference model's allowed set, re-entrancy corpus; enumeration + random/PCT sampling; per-execution trace conformance (interval linearizability of the call/return log against the model, blocking operations included); poisoning scenarios with panics caught inside the holder, every schedule",
        text="On every observed execution of lock/atomic programs: exclusion held at each acquisition (shadow state), try-ops and atomic results were ones the sequential model allows, re-entrant attempts failed or were diagnosed.",
        ref="DESIGN.md §4 C04", note=MODEL_NOTE),
    "C05": dict(
        technique="runtime monitoring: outcome membership (incl. lost wake-ups seen as deadlocks the model does not allow) for condvar/barrier/once/park programs under enumeration and sampling, park programs additionally enumerated over the schedules without spurious wake-ups against the model without them; corpus of hostile shapes (epoch scenario, reused barrier, double unpark); per-execution trace conformance (each wait return must be explained by a notification inside its call/return interval)",
        text="Every observed execution of condvar/barrier/once/park programs produced results and a termination the model allows (no invented or lost wake-up, one leader per generation, one initializer).",
        ref="DESIGN.md §4 C05", note=MODEL_NOTE),
    "C06": dict(
        technique="runtime monitoring: unique message ids, outcome membership against a FIFO channel model with capacity/rendezvous/disconnection rules, under enumeration and sampling; per-execution trace conformance; disconnection scenarios in which an endpoint is dropped by a panic caught inside its task",
        text="Every observed execution of channel programs (unbounded, bounded 1-2, rendezvous; try-ops; explicit endpoint drops) delivered each message once and in order within capacity, and blocked/failed exactly as the model allows.",
        ref="DESIGN.md §4 C06", note=MODEL_NOTE),
}


CHECKS.update({
    "C01": dict(
        technique="runtime monitoring: record/replay differential — every execution under random/PCT/URW/DFS/round-robin is replayed from the printed form of the runtime's recorded schedule and compared event by event (offered sets, choices, draw values, operation results, termination); nondeterminism checker run on the same bodies",
        text="For every observed execution (passing, deadlocking, panicking) of the generated bodies, replaying the runtime's own recorded schedule string reproduced identical decisions, draws, operation results and ending; the runtime's record equalled what the recording wrapper saw.",
        ref="DESIGN.md §4 C01", note="trusted: the recording wrapper (std-only), bodies are the harness's deterministic programs"),
    "C08": dict(
        technique="runtime monitoring: online contract checker over every Scheduler call (wrapper log cross-checked with the runtime's task table and yield requests from the verif hook and with task ids logged by the body), wrapper sandwiches, stop-at-k fault injection",
        text="On every decision observed (all schedulers, all families, yields/parks) the arguments met the Scheduler contract, user code between decisions belonged to the chosen task, returning None ended the execution without failure, MetricsScheduler and the nondeterminism checker were transparent.",
        ref="DESIGN.md §4 C08", note="trusted: hook H1 (read-only snapshot in ExecutionState::schedule), the recording wrappers"),
    "C09": dict(
        technique="runtime monitoring: differential between DfsScheduler's executed schedules and the leaves found by an independent exhaustive enumerator on the same body; iteration-bound and ContinueAfter grids",
        text="For every body explored, DFS executed exactly the set of leaves of the choice tree once each, honoured max_iterations exactly, enumerated exactly the distinct length-k prefixes under ContinueAfter(k), and used one fixed data stream.",
        ref="DESIGN.md §4 C09", note="trusted: EnumScheduler (independent enumerator)"),
    "C10": dict(
        technique="runtime monitoring: run-vs-run and iteration-vs-reported-seed differentials; chi-square uniformity and lag-1 independence tests on observed choice positions (p<1e-9); bounded coverage of small trees against an independent enumeration",
        text="Same-seed runs were identical, sampled iterations were reproduced from their reported seeds incl. draws, observed choice frequencies are consistent with uniform independent choice, every schedule of the small trees tried was visited within the computed bound, URW chose every offered task.",
        ref="DESIGN.md §4 C10", note="statistical: rejection only at p<1e-9; program families chosen by the harness"),
    "C11": dict(
        technique="runtime monitoring: black-box priority-order trace checker over recorded PCT decisions counting forced demotions; one-sided binomial test of hit rates on planted depth-d bugs; run-vs-run differential",
        text="No observed PCT execution (after the first) chose a task outranked by another offered task without a legal reason, none showed more than depth-1 forced demotions, iteration counts matched, hit rates on the planted bugs met 1/(n·k^(d-1)).",
        ref="DESIGN.md §4 C11", note="observed demotions are a lower bound on change points; hit-rate family chosen by the harness"),
    "C13": dict(
        technique="runtime monitoring: step counts measured unbounded, then FailAfter/ContinueAfter grids around them; iteration budgets and time limits checked against body-invocation logs",
        text="On every body/schedule tried no execution exceeded its step bound, FailAfter failed exactly the executions needing more steps, ContinueAfter never raised and kept iteration counts, budgets and max_time were honoured, reset_step_count restarted the count.",
        ref="DESIGN.md §4 C13", note="executions needing exactly n steps under bound n are not judged"),
    "C15": dict(
        technique="runtime monitoring: happens-before graph built from the operation log by API-level rules vs current::clock() sampled after every operation (edge reflection, monotonicity, all-pairs precision on complete-rule programs), target-clock replays checked against graph ancestors",
        text="For every execution observed, every API-level happens-before edge was reflected by the sampled clocks, task clocks only grew, unordered event pairs were never reported ordered (on programs where the rule set is complete); target-clock replay kept all ancestors except for the listed known limitation.",
        ref="DESIGN.md §4 C15", note="trusted: the edge rules in checks/c15.rs; precision only judged where Shuttle documents no conservative edges"),
    "C16": dict(
        technique="runtime monitoring: generated and boundary schedules round-tripped through the public codec in three textual forms; malformed-input classes (prefixes, non-hex, versions, hand-made headers) run under catch_unwind and in forked children so that aborts are observed; sanitizers: codec round trips and damaged strings under valgrind memcheck (quick) and AddressSanitizer (thorough)",
        text="All generated schedules round-tripped exactly in all textual forms; every malformed string tried was rejected through the return value (no panic, no abort, no wrong decode).",
        ref="DESIGN.md §4 C16", note="a cut string that only lost zero padding and still decodes to the original schedule is accepted"),
})

CHECKS.update({
    "C07": dict(
        technique="runtime monitoring: event log written by instrumented thread-locals (init/drop with instance ids), closures and joins of generated thread trees, checked offline per execution (exactly-once, ordering of join vs destructors, per-thread instances, access after destruction, ids/names); sanitizers: a slice of the same thread trees under valgrind memcheck (quick) and AddressSanitizer (thorough)",
        text="On every observed execution of the generated thread trees: each closure ran once, join returned the closure's value after the closure and all of the thread's thread-local destructors, scopes outlived their threads, each (thread,key) had one instance destroyed exactly once in initialisation order, access during/after destruction failed, ids and names were right.",
        ref="DESIGN.md §4 C07", note="std::thread::scope does not wait for thread-local destructors either; that part is not demanded"),
    "C12": dict(
        technique="runtime monitoring in fresh child processes: a history of differently configured Shuttle runs followed by a failing run; the parent checks the caught payload, parses the run's stderr segment and the persistence directory, and replays the emitted schedule in another fresh process (every emitted schedule, not only the last); portfolio runs with deterministic failing/passing members in every order; sanitizers: failing executions (panics with live guards/thread-locals, deadlocks, step bounds) under valgrind memcheck (quick) and AddressSanitizer (thorough)",
        text="For every (history, mode, scenario) case run: the failure surfaced with the task's own payload / the naming message, a schedule was emitted exactly in the configured way (or not at all when disabled) whatever ran before, replaying it reproduced the failure; portfolios failed iff a member did.",
        ref="DESIGN.md §4 C12", note="target runs that do not hit their failure within 400 random iterations are counted, not judged"),
    "C14": dict(
        technique="runtime monitoring: per-iteration self-checks at body entry, live-instance accounting of instrumented values across execution boundaries, cleanup-residue hook, in-context vs stand-alone replay differential, with completed / scheduler-stopped / step-bound-cut predecessors; sanitizers: abandoned-then-recycled executions under valgrind memcheck (quick) and AddressSanitizer (thorough)",
        text="On every iteration observed (all schedulers, all predecessor kinds): the body found a fresh world, no instrumented value survived its execution, cleanup left no labels/tags/storage, initialisers ran once, and the iteration equalled the stand-alone replay of its recorded schedule.",
        ref="DESIGN.md §4 C14", note="trusted: hook H3 (post-cleanup residue counts); live-instance counter is a std thread-local of the runner's OS thread"),
    "C17": dict(
        technique="runtime monitoring: every task's top-level future wrapped so that all polls and all invocations of its waker (user code, JoinHandle completion, yields) are logged; offline checker for lost wake-ups, phantom polls, JoinHandle/abort/detach rules over generated async programs; sanitizers: a slice of the async programs and semaphore scripts under valgrind memcheck (quick) and AddressSanitizer (thorough)",
        text="On every observed execution of the generated async programs: no task was left un-polled after a wake at/after its last poll, none was polled repeatedly without a wake, JoinHandles yielded the task's own output after completion or Cancelled only after an abort with the future already dropped, aborted tasks took no further steps, detached tasks were not destroyed early, all-pending programs were reported as deadlocks.",
        ref="DESIGN.md §4 C17", note="one stale re-poll per wake (the executor's `woken` flag) is tolerated"),
    "C18": dict(
        technique="runtime monitoring: scripted, hand-polled Acquire futures on a strictly fair BatchSemaphore with every step validated against a FIFO counting model and against the semaphore's internal queue/flags (verif hook); blocking programs in both fairness modes against the reference model; exhaustively enumerated cancellation/move scenarios; structured scripts that queue 3-5 waiters, cancel every position and release permit by permit; sanitizers: the same async slice under valgrind memcheck (quick) and AddressSanitizer (thorough)",
        text="Every scripted step agreed with the model in result, wake-ups, available permits and internal queue; blocking programs in both fairness modes produced only allowed outcomes; the cancellation, moved-future and close scenarios passed on every schedule.",
        ref="DESIGN.md §4 C18", note="trusted: hook H2 (read-only snapshot); manually polled Acquires on an unfair semaphore are not driven (unsupported use)"),
    "C19": dict(
        engine="vtokio",
        technique="runtime monitoring: differential scripts of hand-polled operations against real tokio (no runtime) vs the replacement inside a Shuttle execution; scheduled scenario programs with built-in invariant checks explored exhaustively and by random/PCT sampling (incl. close-then-drain with try_recv, cancellation during notify_waiters, zero-permit semaphore requests, tokio RwLock in the differential)",
        text="All scripts agreed step by step with real tokio on the compared results; every scenario (correct tokio program with exactly-once/FIFO/capacity/Notify/lock/JoinSet invariants) passed on every schedule explored, apart from the listed known finding.",
        ref="DESIGN.md §4 C19", note="real tokio from the offline registry is the reference; wake-ups and a few documented corner divergences (capacity of a closed channel, available_permits with a queued request, queued senders/acquirers at close, choice among several Notify waiters) are not compared"),
    "C20": dict(
        engine="vwrap",
        technique="runtime monitoring: lock_api programs with shadow access matrix, upgrade-atomicity and non-waiting-downgrade monitors; DashMap/DashSet linearised against BTreeMap/BTreeSet in return order; deterministic collections compared with std and their iteration orders compared across instances and fresh processes; rand/lazy_static replacements under the replay and isolation monitors; sanitizers: wrapper programs incl. guards and collected iterator items held while the table grows, under valgrind memcheck (quick) and AddressSanitizer (thorough)",
        text="On everything explored the access matrix held, DashMap results equalled a plain map under the operations' return order, collections matched std and iterated identically across instances and processes, rand draws replayed identically and the wrapped lazy static was per-execution; the listed parking_lot findings are the only deviations.",
        ref="DESIGN.md §4 C20", note="instances built with with_capacity are not order-compared with others"),
})

NOT_YET = {}

def main():
    checks = []
    for pid in sorted(CHECKS):
        c = CHECKS[pid]
        checks.append({
            "property_id": pid,
            "quick_cmd": f"./check {pid} --tier quick",
            "thorough_cmd": f"./check {pid} --tier thorough",
            "evidence_file": f"/verif/evidence/{pid}.json",
            "replay_cmd_template": f"./check {pid} --replay {{path}}",
            "engine": c.get("engine", "vcore"),
            "level_claimed": {"category": "exploration", "text": c["text"], "design_ref": c["ref"]},
            "level_note": c["note"],
            "technique": c["technique"],
        })
    props = [json.loads(l)["id"] for l in open(os.path.join(ROOT, "properties.jsonl"))]
    na = []
    for pid in props:
        if pid not in CHECKS:
            na.append({"property_id": pid, "reason": NOT_YET.get(pid, "monitor for this property is not built yet in this tree (planned, see DESIGN.md §4); not claimed until it exists")})
    m = {
        "version": 1,
        "setup_cmd": "./setup.sh",
        "hooks": {
            "guard": "cargo feature `verif` of shuttle-engine (off by default; nothing in the repository enables it)",
            "enable": "the harness crates depend on shuttle-engine with features=[\"verif\"] via path dependencies on /repo, so `./check` builds /repo's working tree with hooks on",
            "baseline_off_cmd": "/verif/tools/baseline.sh",
            "source_commits": ["844d50e"],
            "add_only": True,
        },
        "engines": [
            {"name": "vtokio", "path": "/verif/harness/vtokio", "serves_properties": ["C19"], "kind_free_text": "Rust harness linking the tokio replacement and real tokio: differential script interpreter and scenario bodies"},
            {"name": "vwrap", "path": "/verif/harness/vwrap", "serves_properties": ["C20"], "kind_free_text": "Rust harness linking the parking_lot, dashmap, collections, rand and lazy_static replacements"},
            {"name": "vcore", "path": "/verif/harness/vcore", "serves_properties": sorted(k for k in CHECKS if k not in ("C19", "C20")),
             "kind_free_text": "Rust harness: recording/contract-checking wrapper scheduler, independent exhaustive enumerator, workload language + interpreter over the real primitives, sequential reference model, monitors and evidence writer"},
        ],
        "checks": checks,
        "notes": "All checks rebuild the harness against /repo's working tree (cargo path dependencies) before running. exit 0 held / 1 VIOLATION / 2 inconclusive. Known findings: /verif/known_findings.json.",
        "not_applicable": na,
    }
    json.dump(m, open(os.path.join(ROOT, "MANIFEST.json"), "w"), indent=1)
    print("wrote MANIFEST.json with", len(checks), "checks,", len(na), "not claimed")

if __name__ == "__main__":
    main()
