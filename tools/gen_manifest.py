#!/usr/bin/env python3
"""Generates /verif/MANIFEST.json from the table below (kept as a script so that the per-check
text stays in one reviewable place)."""
import json, os, sys

ROOT = os.path.dirname(os.path.dirname(os.path.abspath(__file__)))

MODEL_NOTE = ("trusted: the harness interpreter and the reference model in harness/vcore/src/model.rs "
              "(written from the documentation, calibrated on the unchanged tree); programs are bounded and sampled")

CHECKS = {
    "C02": dict(
        technique="runtime monitoring: exhaustive enumeration of the real runtime's choice tree per bounded program by an independent enumerator scheduler, observed outcome set compared with an independent sequential reference model (MUST ⊆ observed), missing outcomes diagnosed as named missing choice points",
        text="For every generated/hand-written bounded program whose whole schedule tree was enumerated on the real runtime, every outcome the sequential reference model requires was observed; misses are reported with the op kind whose missing choice point explains them. Exploration level: the quantifier over programs is sampled, the one over schedules is exhausted per program.",
        ref="DESIGN.md §4 C02", note=MODEL_NOTE),
    "C03": dict(
        technique="runtime monitoring: termination kind and blocked-task set of every observed execution (panic payload of Runner::run) checked against the termination the reference model allows; enumeration + random/PCT sampling of deadlock-prone programs",
        text="Every observed execution of deadlock-prone bounded programs ended the way the model allows (pass / deadlock naming exactly the unfinished tasks / diagnosed panic); no hang (step bound) was seen.",
        ref="DESIGN.md §4 C03", note=MODEL_NOTE),
    "C04": dict(
        technique="runtime monitoring: shadow holder sets asserted at every acquisition, per-execution outcome membership in the reference model's allowed set, re-entrancy corpus; enumeration + random/PCT sampling",
        text="On every observed execution of lock/atomic programs: exclusion held at each acquisition (shadow state), try-ops and atomic results were ones the sequential model allows, re-entrant attempts failed or were diagnosed.",
        ref="DESIGN.md §4 C04", note=MODEL_NOTE),
    "C05": dict(
        technique="runtime monitoring: outcome membership (incl. lost wake-ups seen as deadlocks the model does not allow) for condvar/barrier/once/park programs under enumeration and sampling; corpus of hostile shapes (epoch scenario, reused barrier, double unpark)",
        text="Every observed execution of condvar/barrier/once/park programs produced results and a termination the model allows (no invented or lost wake-up, one leader per generation, one initializer).",
        ref="DESIGN.md §4 C05", note=MODEL_NOTE),
    "C06": dict(
        technique="runtime monitoring: unique message ids, outcome membership against a FIFO channel model with capacity/rendezvous/disconnection rules, under enumeration and sampling",
        text="Every observed execution of channel programs (unbounded, bounded 1-2, rendezvous; try-ops; explicit endpoint drops) delivered each message once and in order within capacity, and blocked/failed exactly as the model allows.",
        ref="DESIGN.md §4 C06", note=MODEL_NOTE),
}

NOT_YET = {}

def main():
    checks = []
    for pid in sorted(CHECKS):
        c = CHECKS[pid]
        checks.append({
            "property_id": pid,
            "quick_cmd": f"./check {pid} --tier quick",
            "thorough_cmd": f"./check {pid} --tier thorough",
            "evidence_file": f"/verif/evidence/{pid}.json",
            "replay_cmd_template": f"./check {pid} --replay {{path}}",
            "engine": c.get("engine", "vcore"),
            "level_claimed": {"category": "exploration", "text": c["text"], "design_ref": c["ref"]},
            "level_note": c["note"],
            "technique": c["technique"],
        })
    props = [json.loads(l)["id"] for l in open(os.path.join(ROOT, "properties.jsonl"))]
    na = []
    for pid in props:
        if pid not in CHECKS:
            na.append({"property_id": pid, "reason": NOT_YET.get(pid, "monitor for this property is not built yet in this tree (planned, see DESIGN.md §4); not claimed until it exists")})
    m = {
        "version": 1,
        "setup_cmd": "./setup.sh",
        "hooks": {
            "guard": "cargo feature `verif` of shuttle-engine (off by default; nothing in the repository enables it)",
            "enable": "the harness crates depend on shuttle-engine with features=[\"verif\"] via path dependencies on /repo, so `./check` builds /repo's working tree with hooks on",
            "baseline_off_cmd": "cd /repo && cargo test --workspace --no-fail-fast --offline",
            "source_commits": ["844d50e"],
            "add_only": True,
        },
        "engines": [
            {"name": "vcore", "path": "/verif/harness/vcore", "serves_properties": sorted(CHECKS),
             "kind_free_text": "Rust harness: recording/contract-checking wrapper scheduler, independent exhaustive enumerator, workload language + interpreter over the real primitives, sequential reference model, monitors and evidence writer"},
        ],
        "checks": checks,
        "notes": "All checks rebuild the harness against /repo's working tree (cargo path dependencies) before running. exit 0 held / 1 VIOLATION / 2 inconclusive. Known findings: /verif/known_findings.json.",
        "not_applicable": na,
    }
    json.dump(m, open(os.path.join(ROOT, "MANIFEST.json"), "w"), indent=1)
    print("wrote MANIFEST.json with", len(checks), "checks,", len(na), "not claimed")

if __name__ == "__main__":
    main()
