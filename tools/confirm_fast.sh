#!/bin/bash
# Confirm a seeded change using the full-suite run already made in the worktree (nextest junit):
# demo fails with / passes without the change; every stable-baseline test passed in that run, and
# those that did not (time-outs under load) are re-run alone here.
# usage: confirm_fast.sh <worktree> <demo test target> [cargo package of the demo, default shuttle]
set -u
WT=$1; DEMO=$2; PKG=${3:-shuttle}
cd "$WT" || exit 2
export CARGO_TARGET_DIR="$WT/target" CARGO_NET_OFFLINE=true
OUT="$WT/SEED/confirm.log"
{
[ "$PKG" != shuttle ] || [ -f "shuttle/tests/$DEMO.rs" ] || cp "SEED/$DEMO.rs" "shuttle/tests/$DEMO.rs"
git diff -- . ':!shuttle/tests' ':!*/tests/demo_*' | diff -q - SEED/patch.diff >/dev/null && echo "worktree change == SEED/patch.diff" || { echo "WARNING: worktree change differs from SEED/patch.diff; re-applying"; git checkout -- . ; git apply SEED/patch.diff; }
echo "== demo WITH the change (expected: fails)"
cargo test -p "$PKG" --offline --test "$DEMO" -j4 -- --test-threads=2 2>&1 | grep -E "^test |test result" | head -20
echo "== demo WITHOUT the change (expected: passes)"
git apply -R SEED/patch.diff && {
  cargo test -p "$PKG" --offline --test "$DEMO" -j4 -- --test-threads=2 2>&1 | grep -E "^test |test result" | head -20
  git apply SEED/patch.diff
}
echo "== repository test suite WITH the change: junit of the run made in this worktree"
JUNIT=$(find "$WT/target/nextest/pb" -name junit.xml | head -1)
python3 - "$JUNIT" > "$WT/SEED/notpassing.txt" <<'PY'
import sys, json, xml.etree.ElementTree as ET
base = json.load(open('/root/.vp/BASELINE.json')); want = set(base['stable_pass'])
passed=set(); seen={}
for tc in ET.parse(sys.argv[1]).getroot().iter('testcase'):
    cls = tc.get('classname',''); name = tc.get('name','')
    bad = any(ch.tag in ('failure','error') for ch in tc)
    for i in {f"{cls}::{name}", f"{cls.split('::')[0]}::{name}"}:
        seen[i]=(cls,name)
        if not bad: passed.add(i)
missing = sorted(t for t in want if t not in passed)
sys.stderr.write(f"stable_pass: {len(want)}; passing in that run: {len(want)-len(missing)}; not passing: {len(missing)}\n")
for t in missing:
    if t in seen: print(seen[t][0].split('::')[0], seen[t][1])
    else: sys.stderr.write(f"  NOT RUN: {t}\n")
PY
echo "== re-running alone the tests that did not pass in that run"
while read -r pkg name; do
  [ -z "$pkg" ] && continue
  timeout 1500 cargo nextest run --offline --tool-config-file pb:/w/lib/nextest.toml --profile pb -p "$pkg" -E "test(=$name)" 2>&1 | grep -E "^\s+(PASS|FAIL|TIMEOUT)|Summary" | head -3
done < "$WT/SEED/notpassing.txt"
} > "$OUT" 2>&1
cat "$OUT"
