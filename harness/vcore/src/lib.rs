pub mod checks;
pub mod explore;
pub mod gen;
pub mod model;
pub mod oracle;
pub mod prog;
pub mod rec;
pub mod util;
