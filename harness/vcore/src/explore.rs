//! Explorers: an exhaustive enumerator of the runtime's choice tree written independently of
//! `DfsScheduler`, and small adversarial schedulers used as fault injectors.
use crate::rec::{self, Finished, Rec, Sink, Term};
use shuttle::scheduler::{Schedule, Scheduler, Task, TaskId};
use std::cell::RefCell;
use std::rc::Rc;

#[derive(Default, Debug)]
pub struct EnumState {
    /// (number offered, index chosen) per decision depth of the current path
    pub path: Vec<(usize, usize)>,
    pub depth: usize,
    pub started: bool,
    pub exhausted: bool,
    pub executions: u64,
    pub draws: u64,
    pub diverged: Option<String>,
    /// never choose a task that is blocked and merely eligible for a spurious wake-up
    pub no_spurious: bool,
}

impl EnumState {
    /// Move to the next leaf in lexicographic order. Returns false if the tree is exhausted.
    fn advance(&mut self) -> bool {
        // the previous execution may have ended above the recorded path (cannot happen for a
        // deterministic body, but keep the stack consistent)
        self.path.truncate(self.depth);
        while let Some((n, i)) = self.path.pop() {
            if i + 1 < n {
                self.path.push((n, i + 1));
                return true;
            }
        }
        false
    }
}

/// Exhaustive enumerator. All state lives behind `Rc` so that a fresh `Runner` can continue the
/// enumeration after an execution failed (which consumes the `Runner`).
pub struct EnumScheduler {
    pub st: Rc<RefCell<EnumState>>,
    data_seed: u64,
    data_ctr: u64,
}

impl EnumScheduler {
    pub fn new(st: Rc<RefCell<EnumState>>) -> Self {
        EnumScheduler {
            st,
            data_seed: 0x5eed_cafe,
            data_ctr: 0,
        }
    }
}

impl Scheduler for EnumScheduler {
    fn new_execution(&mut self) -> Option<Schedule> {
        let mut st = self.st.borrow_mut();
        if st.exhausted || st.diverged.is_some() {
            return None;
        }
        if st.started {
            if !st.advance() {
                st.exhausted = true;
                return None;
            }
        }
        st.started = true;
        st.depth = 0;
        st.executions += 1;
        self.data_ctr = 0;
        Some(Schedule::new(self.data_seed))
    }

    fn next_task(&mut self, runnable: &[&Task], _current: Option<TaskId>, _y: bool) -> Option<TaskId> {
        let mut st = self.st.borrow_mut();
        let d = st.depth;
        let filtered: Vec<&Task>;
        let runnable: &[&Task] = if st.no_spurious && runnable.iter().any(|t| t.runnable()) {
            filtered = runnable.iter().copied().filter(|t| t.runnable()).collect();
            &filtered
        } else {
            runnable
        };
        let n = runnable.len();
        let idx = if d < st.path.len() {
            let (pn, pi) = st.path[d];
            if pn != n {
                st.diverged = Some(format!(
                    "at depth {d} the runtime offered {n} tasks, but {pn} on the previous visit of the same prefix"
                ));
                return None;
            }
            pi
        } else {
            st.path.push((n, 0));
            0
        };
        st.depth += 1;
        Some(runnable[idx].id())
    }

    fn next_u64(&mut self) -> u64 {
        // fixed stream: a function of the position only
        self.data_ctr += 1;
        self.st.borrow_mut().draws += 1;
        let mut r = crate::util::Rng::new(self.data_seed ^ self.data_ctr);
        r.next()
    }
}

pub struct EnumOutcome {
    pub complete: bool,
    pub executions: u64,
    pub diverged: Option<String>,
}

/// Enumerate the whole choice tree of `body` (up to `cap` executions). `on_exec` receives every
/// execution's log and how it ended, at the execution boundary. Failing executions do not stop the
/// enumeration.
pub fn enumerate<F, G>(body: F, cfg: shuttle::Config, cap: u64, on_exec: G) -> EnumOutcome
where
    F: Fn() + Send + Sync + Clone + 'static,
    G: FnMut(Finished, Term) + 'static,
{
    enumerate_opt(body, cfg, cap, false, on_exec)
}

/// `no_spurious`: enumerate only the schedules on which no parked/waiting task wakes spuriously.
pub fn enumerate_opt<F, G>(body: F, cfg: shuttle::Config, cap: u64, no_spurious: bool, on_exec: G) -> EnumOutcome
where
    F: Fn() + Send + Sync + Clone + 'static,
    G: FnMut(Finished, Term) + 'static,
{
    let st = Rc::new(RefCell::new(EnumState { no_spurious, ..Default::default() }));
    let on_exec: Rc<RefCell<G>> = Rc::new(RefCell::new(on_exec));
    loop {
        let pending: Rc<RefCell<Option<Finished>>> = Rc::new(RefCell::new(None));
        let p2 = pending.clone();
        let oe = on_exec.clone();
        let sink: Sink = Rc::new(RefCell::new(move |f: Finished| {
            if std::thread::panicking() {
                *p2.borrow_mut() = Some(f);
            } else {
                (oe.borrow_mut())(f, Term::Pass);
            }
        }));
        let sched = Capped {
            inner: EnumScheduler::new(st.clone()),
            st: st.clone(),
            cap,
        };
        let rec = Rec::new(sched, Some(sink));
        let runner = shuttle::Runner::new(rec, cfg.clone());
        let body2 = body.clone();
        let r = std::panic::catch_unwind(std::panic::AssertUnwindSafe(move || runner.run(body2)));
        rec::stop_logging();
        let failed = r.is_err();
        if let Err(e) = &r {
            if let Some(f) = pending.borrow_mut().take() {
                let term = rec::classify_panic(&crate::util::panic_message(e));
                (on_exec.borrow_mut())(f, term);
            }
        }
        let s = st.borrow();
        if s.diverged.is_some() {
            return EnumOutcome {
                complete: false,
                executions: s.executions,
                diverged: s.diverged.clone(),
            };
        }
        if s.exhausted {
            return EnumOutcome {
                complete: true,
                executions: s.executions,
                diverged: None,
            };
        }
        if s.executions >= cap || !failed {
            return EnumOutcome {
                complete: false,
                executions: s.executions,
                diverged: None,
            };
        }
    }
}

struct Capped {
    inner: EnumScheduler,
    st: Rc<RefCell<EnumState>>,
    cap: u64,
}

impl Scheduler for Capped {
    fn new_execution(&mut self) -> Option<Schedule> {
        if self.st.borrow().executions >= self.cap {
            return None;
        }
        self.inner.new_execution()
    }
    fn next_task(&mut self, r: &[&Task], c: Option<TaskId>, y: bool) -> Option<TaskId> {
        self.inner.next_task(r, c, y)
    }
    fn next_u64(&mut self) -> u64 {
        self.inner.next_u64()
    }
}

/// Wrapper that returns `None` from `next_task` at the k-th decision of every execution.
pub struct StopAt<S: Scheduler> {
    pub inner: S,
    pub k: usize,
    n: usize,
}

impl<S: Scheduler> StopAt<S> {
    pub fn new(inner: S, k: usize) -> Self {
        StopAt { inner, k, n: 0 }
    }
}

impl<S: Scheduler> Scheduler for StopAt<S> {
    fn new_execution(&mut self) -> Option<Schedule> {
        self.n = 0;
        self.inner.new_execution()
    }
    fn next_task(&mut self, r: &[&Task], c: Option<TaskId>, y: bool) -> Option<TaskId> {
        if self.n == self.k {
            self.n += 1;
            return None;
        }
        self.n += 1;
        self.inner.next_task(r, c, y)
    }
    fn next_u64(&mut self) -> u64 {
        self.inner.next_u64()
    }
}

/// Scheduler driven by a list of positions: at decision i choose offered[pos[i] % len]. Used to
/// replay a path of the choice tree and by generators that want arbitrary but reproducible choices.
pub struct PosScheduler {
    pub pos: Vec<usize>,
    i: usize,
    started: bool,
    pub repeat: usize,
    runs: usize,
}

impl PosScheduler {
    pub fn new(pos: Vec<usize>, repeat: usize) -> Self {
        PosScheduler {
            pos,
            i: 0,
            started: false,
            repeat,
            runs: 0,
        }
    }
}

impl Scheduler for PosScheduler {
    fn new_execution(&mut self) -> Option<Schedule> {
        if self.runs >= self.repeat {
            return None;
        }
        self.runs += 1;
        self.i = 0;
        self.started = true;
        Some(Schedule::new(0x5eed_cafe))
    }
    fn next_task(&mut self, r: &[&Task], _c: Option<TaskId>, _y: bool) -> Option<TaskId> {
        let p = self.pos.get(self.i).copied().unwrap_or(0);
        self.i += 1;
        Some(r[p % r.len()].id())
    }
    fn next_u64(&mut self) -> u64 {
        (self.i as u64).wrapping_mul(0x9E3779B97F4A7C15)
    }
}
