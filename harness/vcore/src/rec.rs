//! Observation channels: the per-execution event log, the recording wrapper scheduler `Rec<S>`,
//! the `verif` hook observer and the post-pass contract checker (C08), plus run helpers.
use shuttle::scheduler::{Schedule, Scheduler, Task, TaskId};
use shuttle_engine::runtime::execution::CurrentSchedule;
use shuttle_engine::scheduler::ScheduleStep;
use shuttle_engine::verif as hook;
use std::cell::RefCell;
use std::rc::Rc;

pub const F_RUNNABLE: u8 = 1;
pub const F_BLOCKED: u8 = 2;
pub const F_SPURIOUS: u8 = 4;
pub const F_SLEEPING: u8 = 8;
pub const F_FINISHED: u8 = 16;
pub const F_DETACHED: u8 = 32;

#[derive(Clone, Debug, PartialEq, Eq)]
pub struct DecisionRec {
    pub offered: Vec<(usize, u8)>,
    pub current: Option<usize>,
    pub yielding: bool,
    pub choice: Option<usize>,
}

#[derive(Clone, Debug, PartialEq, Eq)]
pub struct HookDecision {
    pub tasks: Vec<(usize, u8)>,
    pub offered: Vec<usize>,
    pub consulted: bool,
    pub current: Option<usize>,
    pub yielding: bool,
    /// Some(id) = task chosen; None + kind
    pub decision: HookVerdict,
    pub schedule_len: usize,
    pub steps_reset_at: usize,
}

#[derive(Clone, Copy, Debug, PartialEq, Eq)]
pub enum HookVerdict {
    Task(usize),
    Stopped,
    Finished,
    StepBound,
}

/// One entry of the totally ordered event log of an execution.
#[derive(Clone, Debug, PartialEq, Eq)]
pub enum Ev {
    /// scheduler.next_task as seen by the outermost recording wrapper
    Decision(DecisionRec),
    /// scheduler.next_u64
    Draw(u64),
    /// event written by the test body: (shuttle task id, tag, a, b)
    Body { task: usize, tag: u32, a: i64, b: i64 },
    /// runtime-side view of a scheduling verdict (hook H1)
    Hook(HookDecision),
    /// hook: request_yield by task
    YieldReq(usize),
    /// hook H3
    End { labels: usize, tags: usize, storage: usize, pool: usize },
}

#[derive(Clone, Debug, Default)]
pub struct ExecLog {
    pub seed: Option<u64>,
    pub initial_steps: usize,
    pub events: Vec<Ev>,
}

thread_local! {
    static LOG: RefCell<ExecLog> = RefCell::new(ExecLog::default());
    static LOGGING: std::cell::Cell<bool> = const { std::cell::Cell::new(false) };
    static BODY_LOGGING: std::cell::Cell<bool> = const { std::cell::Cell::new(true) };
}

pub fn log_push(ev: Ev) {
    if LOGGING.with(|l| l.get()) {
        LOG.with(|l| l.borrow_mut().events.push(ev));
    }
}

pub fn set_body_logging(on: bool) {
    BODY_LOGGING.with(|b| b.set(on));
}

/// Called from test bodies. Never touches a Shuttle primitive except `current::me()`.
pub fn body_event(tag: u32, a: i64, b: i64) {
    if !BODY_LOGGING.with(|b| b.get()) {
        return;
    }
    let task: usize = shuttle::current::me().into();
    log_push(Ev::Body { task, tag, a, b });
}

pub fn take_log() -> ExecLog {
    LOG.with(|l| std::mem::take(&mut *l.borrow_mut()))
}

pub fn start_logging() {
    LOGGING.with(|l| l.set(true));
    LOG.with(|l| *l.borrow_mut() = ExecLog::default());
}

pub fn stop_logging() {
    LOGGING.with(|l| l.set(false));
}

pub fn install_hook_observer() {
    hook::set_observer(Some(Box::new(|e: &hook::Event| match e {
        hook::Event::Decision {
            tasks,
            offered,
            consulted_scheduler,
            current,
            is_yielding,
            decision,
            schedule_len,
            steps_reset_at,
        } => {
            let tasks = tasks
                .iter()
                .map(|t| {
                    let mut f = match t.state {
                        hook::TaskStateView::Runnable => F_RUNNABLE,
                        hook::TaskStateView::Blocked { allow_spurious_wakeups } => {
                            F_BLOCKED | if allow_spurious_wakeups { F_SPURIOUS } else { 0 }
                        }
                        hook::TaskStateView::Sleeping => F_SLEEPING,
                        hook::TaskStateView::Finished => F_FINISHED,
                    };
                    if t.detached {
                        f |= F_DETACHED;
                    }
                    (usize::from(t.id), f)
                })
                .collect();
            log_push(Ev::Hook(HookDecision {
                tasks,
                offered: offered.iter().map(|t| usize::from(*t)).collect(),
                consulted: *consulted_scheduler,
                current: current.map(usize::from),
                yielding: *is_yielding,
                decision: match decision {
                    hook::DecisionView::Task(t) => HookVerdict::Task(usize::from(*t)),
                    hook::DecisionView::Stopped => HookVerdict::Stopped,
                    hook::DecisionView::Finished => HookVerdict::Finished,
                    hook::DecisionView::StepBoundExceeded => HookVerdict::StepBound,
                },
                schedule_len: *schedule_len,
                steps_reset_at: *steps_reset_at,
            }));
        }
        hook::Event::YieldRequest(t) => log_push(Ev::YieldReq(usize::from(*t))),
        hook::Event::ExecutionEnd {
            labels,
            tags,
            storage_slots_left,
            pooled_continuations,
        } => log_push(Ev::End {
            labels: *labels,
            tags: *tags,
            storage: *storage_slots_left,
            pool: *pooled_continuations,
        }),
    })));
}

pub fn task_flags(t: &Task) -> u8 {
    let mut f = 0;
    if t.runnable() {
        f |= F_RUNNABLE;
    }
    if t.blocked() {
        f |= F_BLOCKED;
    }
    if t.can_spuriously_wakeup() {
        f |= F_SPURIOUS;
    }
    if t.sleeping() {
        f |= F_SLEEPING;
    }
    if t.finished() {
        f |= F_FINISHED;
    }
    if t.is_detached() {
        f |= F_DETACHED;
    }
    f
}

/// What `Rec` hands to its owner at every execution boundary.
pub struct Finished {
    pub log: ExecLog,
    /// The runtime's own record of the execution (CurrentSchedule) sampled at the boundary
    pub runtime_schedule: Schedule,
}

pub type Sink = Rc<RefCell<dyn FnMut(Finished)>>;

/// Recording wrapper. Forwards everything to `inner` unchanged and logs what it saw. At each
/// `new_execution` (i.e. at the end of the previous execution) the finished log is handed to `sink`.
pub struct Rec<S: Scheduler> {
    pub inner: S,
    sink: Option<Sink>,
    started: bool,
}

impl<S: Scheduler> Rec<S> {
    pub fn new(inner: S, sink: Option<Sink>) -> Self {
        Rec {
            inner,
            sink,
            started: false,
        }
    }

    fn flush(&mut self) {
        if self.started {
            self.started = false;
            let log = take_log();
            let runtime_schedule = CurrentSchedule::get_schedule();
            if let Some(s) = &self.sink {
                (s.borrow_mut())(Finished { log, runtime_schedule });
            }
        }
    }
}

impl<S: Scheduler> Scheduler for Rec<S> {
    fn new_execution(&mut self) -> Option<Schedule> {
        self.flush();
        let r = self.inner.new_execution();
        if let Some(s) = &r {
            start_logging();
            LOG.with(|l| {
                let mut l = l.borrow_mut();
                l.seed = Some(s.seed);
                l.initial_steps = s.steps.len();
            });
            self.started = true;
        } else {
            stop_logging();
        }
        r
    }

    fn next_task(&mut self, runnable: &[&Task], current: Option<TaskId>, is_yielding: bool) -> Option<TaskId> {
        let offered = runnable.iter().map(|t| (usize::from(t.id()), task_flags(t))).collect();
        let choice = self.inner.next_task(runnable, current, is_yielding);
        log_push(Ev::Decision(DecisionRec {
            offered,
            current: current.map(usize::from),
            yielding: is_yielding,
            choice: choice.map(usize::from),
        }));
        choice
    }

    fn next_u64(&mut self) -> u64 {
        let v = self.inner.next_u64();
        log_push(Ev::Draw(v));
        v
    }
}

impl<S: Scheduler> Drop for Rec<S> {
    fn drop(&mut self) {
        // last execution of a run (also when the run ended by a panic)
        self.flush();
        stop_logging();
    }
}

pub fn base_config() -> shuttle::Config {
    let mut c = shuttle::Config::new();
    c.failure_persistence = shuttle::FailurePersistence::None;
    c.stack_size = 0x8000;
    c.max_steps = shuttle::MaxSteps::FailAfter(100_000);
    c
}

/// How an execution / run ended, as seen from outside `Runner::run`.
#[derive(Clone, Debug, PartialEq, Eq, PartialOrd, Ord, Hash)]
pub enum Term {
    Pass,
    Deadlock(Vec<usize>),
    StepBound,
    Panic(String),
}

pub fn classify_panic(msg: &str) -> Term {
    if let Some(rest) = msg.strip_prefix("deadlock! blocked tasks: [") {
        // entries look like "name (task 3, detached, pending future)" or "name (task TaskId(3))"
        let mut ids = vec![];
        for part in rest.split("(task ").skip(1) {
            let digits: String = part
                .trim_start_matches("TaskId(")
                .chars()
                .skip_while(|c| !c.is_ascii_digit())
                .take_while(|c| c.is_ascii_digit())
                .collect();
            if let Ok(n) = digits.parse::<usize>() {
                ids.push(n);
            }
        }
        ids.sort();
        Term::Deadlock(ids)
    } else if msg.starts_with("exceeded max_steps bound") {
        Term::StepBound
    } else {
        Term::Panic(msg.to_string())
    }
}

/// Expected schedule steps from a log: one Task step per decision with a choice, one Random per draw.
pub fn steps_from_log(log: &ExecLog) -> Vec<ScheduleStep> {
    let mut v = vec![];
    for e in &log.events {
        match e {
            Ev::Decision(d) => {
                if let Some(c) = d.choice {
                    v.push(ScheduleStep::Task(TaskId::from(c)));
                }
            }
            Ev::Draw(_) => v.push(ScheduleStep::Random),
            _ => {}
        }
    }
    v
}

pub fn choice_seq(log: &ExecLog) -> Vec<u32> {
    let mut v = vec![];
    for e in &log.events {
        match e {
            Ev::Decision(d) => v.push(d.choice.map(|c| c as u32).unwrap_or(u32::MAX)),
            Ev::Draw(_) => v.push(u32::MAX - 1),
            _ => {}
        }
    }
    v
}

pub fn hash_choices(log: &ExecLog) -> u64 {
    let c = choice_seq(log);
    let mut bytes = Vec::with_capacity(c.len() * 4);
    for x in c {
        bytes.extend_from_slice(&x.to_le_bytes());
    }
    crate::util::hash64(&bytes)
}

pub fn nontrivial(log: &ExecLog) -> bool {
    log.events
        .iter()
        .any(|e| matches!(e, Ev::Decision(d) if d.offered.len() >= 2))
}

/// C08 post-pass over one execution's log. `body_tasks_known`: body events carry real task ids.
/// Returns a list of (signature, description) for every contract breach found.
pub fn contract_check(log: &ExecLog, runtime_schedule: Option<&Schedule>) -> Vec<(String, String)> {
    let mut out = vec![];
    let mut bad = |sig: &str, what: String| {
        if out.len() < 8 {
            out.push((sig.to_string(), what));
        }
    };
    let mut last_choice: Option<usize> = None;
    let mut first = true;
    let mut yield_req_by: Option<usize> = None; // pending yield request since last decision
    let mut have_hook = false;
    let mut pending_dec: Option<DecisionRec> = None;
    let mut stopped = false;
    let mut body_task_since_dec: Vec<usize> = vec![];
    let mut max_task_seen = 0usize;
    for (i, e) in log.events.iter().enumerate() {
        match e {
            Ev::Decision(d) => {
                if stopped {
                    bad("decision-after-none", format!("event {i}: scheduler consulted again after it returned None"));
                }
                if d.offered.is_empty() {
                    bad("empty-list", format!("event {i}: empty runnable list"));
                }
                for w in d.offered.windows(2) {
                    if w[0].0 >= w[1].0 {
                        bad("not-ascending", format!("event {i}: offered ids not strictly ascending: {:?}", d.offered));
                    }
                }
                for (id, f) in &d.offered {
                    if f & F_FINISHED != 0 {
                        bad("finished-offered", format!("event {i}: finished task {id} offered"));
                    }
                    let ok = (f & F_RUNNABLE != 0) || (f & F_BLOCKED != 0 && f & F_SPURIOUS != 0);
                    if !ok {
                        bad("unrunnable-offered", format!("event {i}: task {id} offered with flags {f:#x} (neither runnable nor spuriously wakeable)"));
                    }
                    max_task_seen = max_task_seen.max(*id);
                }
                if first {
                    if d.current.is_some() {
                        bad("current-at-first", format!("event {i}: current_task = {:?} at the first decision", d.current));
                    }
                } else if d.current != last_choice {
                    bad("current-mismatch", format!("event {i}: current_task = {:?} but the task chosen at the previous decision was {:?}", d.current, last_choice));
                }
                // user code between decisions must belong to the chosen task
                for t in &body_task_since_dec {
                    if Some(*t) != last_choice {
                        bad("foreign-body-step", format!("event {i}: body event of task {t} between decisions although task {:?} was chosen", last_choice));
                    }
                }
                body_task_since_dec.clear();
                // yielding flag (needs hook for exactness)
                if have_hook {
                    let requested = yield_req_by.is_some() && yield_req_by == d.current;
                    if d.yielding && !requested {
                        bad("yield-flag-spurious", format!("event {i}: is_yielding set but task {:?} made no yield request since the previous decision", d.current));
                    }
                    if !d.yielding && requested {
                        bad("yield-flag-lost", format!("event {i}: task {:?} requested a yield but is_yielding is clear", d.current));
                    }
                }
                yield_req_by = None;
                if let Some(c) = d.choice {
                    if !d.offered.iter().any(|(id, _)| *id == c) {
                        // scheduler's fault, not the runtime's; note only
                    }
                    last_choice = Some(c);
                } else {
                    stopped = true;
                }
                first = false;
                pending_dec = Some(d.clone());
            }
            Ev::Draw(_) => {
                if stopped {
                    bad("draw-after-none", format!("event {i}: random draw after the scheduler returned None"));
                }
            }
            Ev::Body { task, .. } => {
                if stopped {
                    bad("body-after-none", format!("event {i}: user code of task {task} ran after the scheduler returned None"));
                }
                if first {
                    bad("body-before-first-decision", format!("event {i}: user code ran before the first decision"));
                }
                body_task_since_dec.push(*task);
            }
            Ev::YieldReq(t) => {
                have_hook = true;
                yield_req_by = Some(*t);
            }
            Ev::Hook(h) => {
                have_hook = true;
                if h.consulted {
                    // must directly follow the Decision it describes
                    match pending_dec.take() {
                        Some(d) => {
                            let ids: Vec<usize> = d.offered.iter().map(|x| x.0).collect();
                            if ids != h.offered {
                                bad("hook-offered-mismatch", format!("event {i}: wrapper saw {:?} offered, runtime built {:?}", ids, h.offered));
                            }
                            let dec = match h.decision {
                                HookVerdict::Task(t) => Some(t),
                                _ => None,
                            };
                            if dec != d.choice {
                                bad("choice-not-honoured", format!("event {i}: scheduler returned {:?} but runtime recorded {:?}", d.choice, h.decision));
                            }
                            if h.yielding != d.yielding || h.current != d.current {
                                bad("hook-args-mismatch", format!("event {i}: runtime args (current {:?}, yielding {}) differ from what the scheduler received ({:?}, {})", h.current, h.yielding, d.current, d.yielding));
                            }
                        }
                        None => bad("hook-without-decision", format!("event {i}: runtime reports a consulted decision the wrapper never saw")),
                    }
                    // completeness of the offered list against the runtime's own task table
                    let mut expect = vec![];
                    for (id, f) in &h.tasks {
                        let able = f & F_RUNNABLE != 0;
                        let spur = f & F_BLOCKED != 0 && f & F_SPURIOUS != 0;
                        if f & F_FINISHED == 0 && (able || spur) {
                            expect.push(*id);
                        }
                    }
                    // note: the hook snapshot is taken after a spuriously woken task was unblocked,
                    // which only turns a (blocked|spurious) task into a runnable one: membership is unchanged.
                    if expect != h.offered {
                        bad("offered-incomplete", format!("event {i}: tasks able to run per task table = {:?}, offered = {:?}", expect, h.offered));
                    }
                } else {
                    match h.decision {
                        HookVerdict::Finished => {
                            // exactness of the finish/deadlock verdict is C03's business; here: nothing may be runnable&attached-relevant
                        }
                        HookVerdict::Stopped | HookVerdict::StepBound => {}
                        HookVerdict::Task(_) => bad("hook-task-unconsulted", format!("event {i}: runtime chose a task without consulting the scheduler")),
                    }
                }
            }
            Ev::End { .. } => {}
        }
    }
    if let Some(rs) = runtime_schedule {
        let expect = steps_from_log(log);
        if log.initial_steps == 0 {
            if rs.steps != expect {
                bad(
                    "runtime-schedule-mismatch",
                    format!(
                        "runtime recorded {} steps, wrapper saw {} choices/draws; first difference at {:?}",
                        rs.steps.len(),
                        expect.len(),
                        rs.steps.iter().zip(expect.iter()).position(|(a, b)| a != b)
                    ),
                );
            }
            if Some(rs.seed) != log.seed {
                bad("runtime-seed-mismatch", format!("runtime schedule seed {} but new_execution returned {:?}", rs.seed, log.seed));
            }
        }
    }
    out
}

/// Result of running a body once or many times under a recording scheduler.
pub struct RunResult {
    pub execs: Vec<Finished>,
    pub term: Term,
    pub iterations: Option<usize>,
}

/// Run `body` under `Rec<S>` with the given config; collect every execution's log.
pub fn run_recorded<S, F>(sched: S, cfg: shuttle::Config, body: F) -> RunResult
where
    S: Scheduler + 'static,
    F: Fn() + Send + Sync + 'static,
{
    let execs: Rc<RefCell<Vec<Finished>>> = Rc::new(RefCell::new(vec![]));
    let e2 = execs.clone();
    run_streamed(sched, cfg, body, move |f| e2.borrow_mut().push(f)).with_execs(&execs)
}

impl RunResult {
    fn with_execs(mut self, e: &Rc<RefCell<Vec<Finished>>>) -> Self {
        self.execs = std::mem::take(&mut *e.borrow_mut());
        self
    }
}

/// Like `run_recorded` but hands each execution to `on_exec` at its boundary instead of buffering.
/// For the last execution of a failing run, `on_exec` is called while unwinding.
pub fn run_streamed<S, F, G>(sched: S, cfg: shuttle::Config, body: F, on_exec: G) -> RunResult
where
    S: Scheduler + 'static,
    F: Fn() + Send + Sync + 'static,
    G: FnMut(Finished) + 'static,
{
    let sink: Sink = Rc::new(RefCell::new(on_exec));
    let rec = Rec::new(sched, Some(sink));
    let runner = shuttle::Runner::new(rec, cfg);
    let r = std::panic::catch_unwind(std::panic::AssertUnwindSafe(move || runner.run(body)));
    stop_logging();
    let (term, iterations) = match r {
        Ok(n) => (Term::Pass, Some(n)),
        Err(p) => (classify_panic(&crate::util::panic_message(&p)), None),
    };
    RunResult {
        execs: vec![],
        term,
        iterations,
    }
}

/// The printed string form of a schedule (the engine's own codec).
pub fn serialize(s: &Schedule) -> String {
    shuttle_engine::scheduler::serialization::serialize_schedule(s)
}
