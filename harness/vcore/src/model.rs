//! Reference model: a small executable sequential specification of each primitive, written from
//! the documentation and the property statements, and an enumerator of all sequentially consistent
//! interleavings of a bounded program. It knows nothing about scheduling points.
use crate::prog::*;
use std::collections::{BTreeSet, HashSet, VecDeque};

#[derive(Clone, Copy, Debug, PartialEq, Eq, Hash)]
pub struct Policy {
    /// blocked senders are served in arrival order (Shuttle's documented choice)
    pub fifo_senders: bool,
    /// a try_send reports Full while an earlier blocked sender is still queued
    pub try_send_reserve: bool,
    /// any member of a barrier generation may be the leader (else: the last arriver, as in std)
    pub barrier_leader_any: bool,
    /// park may return spuriously while another task can still run
    pub spurious_park: bool,
    /// known-finding switches: fuse an op kind with the caller's previous op (no choice point)
    pub fuse: Fuse,
}

#[derive(Clone, Copy, Debug, PartialEq, Eq, Hash, Default)]
pub struct Fuse {
    pub drop_tx: bool,
    pub drop_rx: bool,
    pub is_completed: bool,
    pub avail: bool,
    pub is_closed: bool,
    pub once_completion: bool,
    /// a barrier arrival that will block has no choice point before it
    pub barrier_blocking_arrival: bool,
    /// park/unpark as Shuttle implements them: a park that will block has no choice point before
    /// it, and an unpark that finds its target parked wakes it directly *without* leaving a token, so
    /// a second unpark before the woken thread runs stores a token of its own (std: both unparks can
    /// collapse into the one token the thread consumes when it wakes)
    pub park_handoff: bool,
}

impl Policy {
    pub fn documented() -> Self {
        Policy {
            fifo_senders: true,
            try_send_reserve: true,
            barrier_leader_any: false,
            spurious_park: false,
            fuse: Fuse::default(),
        }
    }
}

#[derive(Clone, Debug, PartialEq, Eq, Hash)]
enum MObj {
    Mutex { holder: Option<usize>, val: i64 },
    RwLock { writer: Option<usize>, readers: Vec<usize>, val: i64 },
    Condvar { waiters: Vec<(usize, bool)> },
    Barrier { n: usize, arrived: Vec<usize>, released: Vec<(usize, bool)> },
    Once { running: Option<usize>, complete: bool },
    Chan {
        cap: Option<usize>,
        buf: VecDeque<i64>,
        senders: usize,
        rx_alive: bool,
        wait_tx: Vec<usize>,
        rx_waiting: bool,
    },
    Atomic(i64),
    Sem { avail: usize, fair: bool, queue: Vec<(usize, usize)>, granted: Vec<usize>, closed: bool },
}

#[derive(Clone, Copy, Debug, PartialEq, Eq, Hash)]
enum St {
    NotSpawned,
    Live,
    Finished,
}

#[derive(Clone, Debug, PartialEq, Eq, Hash)]
struct MState {
    pc: Vec<usize>,
    phase: Vec<u8>,
    st: Vec<St>,
    token: Vec<bool>,
    spawner: Vec<Option<usize>>, // who holds the join handle
    tx_owned: Vec<Vec<bool>>,    // [obj][task]
    rx_owned: Vec<Option<usize>>, // [obj] -> owner while not dropped
    results: Vec<Vec<i64>>,
    objs: Vec<MObj>,
    /// task whose next step must be taken immediately (fused op), if any
    fused: Option<usize>,
}

#[derive(Clone, Debug, PartialEq, Eq, PartialOrd, Ord, Hash)]
pub enum MTerm {
    Pass,
    Deadlock(Vec<usize>),
    Panic(String),
}

#[derive(Clone, Debug, PartialEq, Eq, PartialOrd, Ord, Hash)]
pub struct Outcome {
    pub results: Vec<Vec<i64>>,
    pub term: MTerm,
}

pub struct ModelResult {
    pub outcomes: BTreeSet<Outcome>,
    pub states: usize,
    pub complete: bool,
}

fn init_state(p: &Prog) -> MState {
    let nt = p.tasks.len();
    let mut st = vec![St::NotSpawned; nt];
    st[0] = St::Live;
    let objs: Vec<MObj> = p
        .objs
        .iter()
        .enumerate()
        .map(|(i, o)| match o {
            Obj::Mutex => MObj::Mutex { holder: None, val: 0 },
            Obj::RwLock => MObj::RwLock {
                writer: None,
                readers: vec![],
                val: 0,
            },
            Obj::Condvar => MObj::Condvar { waiters: vec![] },
            Obj::Barrier(n) => MObj::Barrier {
                n: (*n).max(1),
                arrived: vec![],
                released: vec![],
            },
            Obj::Once => MObj::Once {
                running: None,
                complete: false,
            },
            Obj::Chan(cap) => MObj::Chan {
                cap: *cap,
                buf: VecDeque::new(),
                // a channel nobody owns a sender of keeps its (forgotten) original sender alive
                senders: p.sender_owners(i).len().max(1),
                rx_alive: true,
                wait_tx: vec![],
                rx_waiting: false,
            },
            Obj::Atomic(v) => MObj::Atomic(*v),
            Obj::Sem { permits, fair } => MObj::Sem {
                avail: *permits,
                fair: *fair,
                queue: vec![],
                granted: vec![],
                closed: false,
            },
        })
        .collect();
    let tx_owned = (0..p.objs.len())
        .map(|i| (0..nt).map(|t| p.sender_owners(i).contains(&t)).collect())
        .collect();
    let rx_owned = (0..p.objs.len()).map(|i| p.receiver_owner(i)).collect();
    MState {
        pc: vec![0; nt],
        phase: vec![0; nt],
        st,
        token: vec![false; nt],
        spawner: vec![None; nt],
        tx_owned,
        rx_owned,
        results: vec![vec![]; nt],
        objs,
        fused: None,
    }
}

enum Step {
    /// not enabled in this state
    Blocked,
    /// successor states (≥1)
    Next(Vec<MState>),
    /// the whole execution fails
    Panic(String),
}

fn done(mut s: MState, t: usize, res: i64, p: &Prog, pol: &Policy) -> MState {
    s.results[t].push(res);
    s.pc[t] += 1;
    s.phase[t] = 0;
    s.fused = None;
    if s.pc[t] >= p.tasks[t].len() {
        // leaving the task body is a step of its own (thread exit); see `step_task`
    } else if is_fused(&p.tasks[t][s.pc[t]], pol, &s) {
        s.fused = Some(t);
    }
    s
}

fn is_fused(op: &Op, pol: &Policy, s: &MState) -> bool {
    match op {
        Op::BarrierWait(b) => {
            if !pol.fuse.barrier_blocking_arrival {
                return false;
            }
            let MObj::Barrier { n, arrived, .. } = &s.objs[*b] else { unreachable!() };
            arrived.len() + 1 < *n
        }
        Op::Park => pol.fuse.park_handoff,
        Op::DropTx(_) => pol.fuse.drop_tx,
        Op::DropRx(_) => pol.fuse.drop_rx,
        Op::IsCompleted(_) => pol.fuse.is_completed,
        Op::Avail(_) => pol.fuse.avail,
        Op::IsClosed(_) => pol.fuse.is_closed,
        _ => false,
    }
}

fn step_task(s: &MState, t: usize, p: &Prog, pol: &Policy) -> Step {
    if s.pc[t] >= p.tasks[t].len() {
        let mut n = s.clone();
        n.fused = None;
        n.st[t] = St::Finished;
        return Step::Next(vec![n]);
    }
    let op = &p.tasks[t][s.pc[t]];
    let ph = s.phase[t];
    let mut n = s.clone();
    n.fused = None;
    macro_rules! fin {
        ($res:expr) => {
            return Step::Next(vec![done(n, t, $res, p, pol)])
        };
    }
    match op {
        Op::Lock(m) => {
            let MObj::Mutex { holder, val } = &mut n.objs[*m] else { unreachable!() };
            if *holder == Some(t) {
                return Step::Panic("reentrant-mutex".into());
            }
            if holder.is_some() {
                return Step::Blocked;
            }
            *holder = Some(t);
            let v = *val;
            *val += 1;
            fin!(v)
        }
        Op::TryLock(m) => {
            let MObj::Mutex { holder, val } = &mut n.objs[*m] else { unreachable!() };
            if holder.is_some() {
                fin!(R_WOULDBLOCK)
            }
            *holder = Some(t);
            let v = *val;
            *val += 1;
            fin!(v)
        }
        Op::Unlock(m) => {
            let MObj::Mutex { holder, .. } = &mut n.objs[*m] else { unreachable!() };
            if *holder == Some(t) {
                *holder = None;
                fin!(R_OK)
            }
            fin!(R_NOT_SPAWNED)
        }
        Op::Read(l) => {
            let MObj::RwLock { writer, readers, val } = &mut n.objs[*l] else { unreachable!() };
            if *writer == Some(t) || readers.contains(&t) {
                return Step::Panic("reentrant-rwlock".into());
            }
            if writer.is_some() {
                return Step::Blocked;
            }
            readers.push(t);
            readers.sort();
            let v = *val;
            fin!(v)
        }
        Op::TryRead(l) => {
            let MObj::RwLock { writer, readers, val } = &mut n.objs[*l] else { unreachable!() };
            if writer.is_some() || readers.contains(&t) {
                fin!(R_WOULDBLOCK)
            }
            readers.push(t);
            readers.sort();
            let v = *val;
            fin!(v)
        }
        Op::Write(l) => {
            let MObj::RwLock { writer, readers, val } = &mut n.objs[*l] else { unreachable!() };
            if *writer == Some(t) || readers.contains(&t) {
                return Step::Panic("reentrant-rwlock".into());
            }
            if writer.is_some() || !readers.is_empty() {
                return Step::Blocked;
            }
            *writer = Some(t);
            let v = *val;
            *val += 1;
            fin!(v)
        }
        Op::TryWrite(l) => {
            let MObj::RwLock { writer, readers, val } = &mut n.objs[*l] else { unreachable!() };
            if writer.is_some() || !readers.is_empty() {
                fin!(R_WOULDBLOCK)
            }
            *writer = Some(t);
            let v = *val;
            *val += 1;
            fin!(v)
        }
        Op::RUnlock(l) => {
            let MObj::RwLock { readers, .. } = &mut n.objs[*l] else { unreachable!() };
            if let Some(i) = readers.iter().position(|x| *x == t) {
                readers.remove(i);
                fin!(R_OK)
            }
            fin!(R_NOT_SPAWNED)
        }
        Op::WUnlock(l) => {
            let MObj::RwLock { writer, .. } = &mut n.objs[*l] else { unreachable!() };
            if *writer == Some(t) {
                *writer = None;
                fin!(R_OK)
            }
            fin!(R_NOT_SPAWNED)
        }
        Op::Wait { cv, m } => match ph {
            0 => {
                {
                    let MObj::Mutex { holder, .. } = &mut n.objs[*m] else { unreachable!() };
                    if *holder != Some(t) {
                        fin!(R_NOT_SPAWNED)
                    }
                    *holder = None;
                }
                let MObj::Condvar { waiters } = &mut n.objs[*cv] else { unreachable!() };
                waiters.push((t, false));
                n.phase[t] = 1;
                Step::Next(vec![n])
            }
            1 => {
                let MObj::Condvar { waiters } = &mut n.objs[*cv] else { unreachable!() };
                let i = waiters.iter().position(|w| w.0 == t).unwrap();
                if !waiters[i].1 {
                    return Step::Blocked;
                }
                waiters.remove(i);
                n.phase[t] = 2;
                Step::Next(vec![n])
            }
            _ => {
                let MObj::Mutex { holder, val } = &mut n.objs[*m] else { unreachable!() };
                if holder.is_some() {
                    return Step::Blocked;
                }
                *holder = Some(t);
                let v = *val;
                fin!(v)
            }
        },
        Op::NotifyOne(cv) => {
            let MObj::Condvar { waiters } = &n.objs[*cv] else { unreachable!() };
            let cands: Vec<usize> = waiters.iter().enumerate().filter(|(_, w)| !w.1).map(|(i, _)| i).collect();
            if cands.is_empty() {
                fin!(R_OK)
            }
            let mut outs = vec![];
            for i in cands {
                let mut k = n.clone();
                let MObj::Condvar { waiters } = &mut k.objs[*cv] else { unreachable!() };
                waiters[i].1 = true;
                outs.push(done(k, t, R_OK, p, pol));
            }
            Step::Next(outs)
        }
        Op::NotifyAll(cv) => {
            let MObj::Condvar { waiters } = &mut n.objs[*cv] else { unreachable!() };
            for w in waiters.iter_mut() {
                w.1 = true;
            }
            fin!(R_OK)
        }
        Op::BarrierWait(b) => match ph {
            0 => {
                let MObj::Barrier { n: bound, arrived, .. } = &mut n.objs[*b] else { unreachable!() };
                arrived.push(t);
                if arrived.len() >= *bound {
                    // the arrival that completes the group does not block: it releases the others and
                    // returns in the same step (arrive and return are one atomic operation for it)
                    let members = std::mem::take(arrived);
                    let leaders: Vec<usize> = if pol.barrier_leader_any { members.clone() } else { vec![t] };
                    let mut outs = vec![];
                    for leader in leaders {
                        let mut k = n.clone();
                        let MObj::Barrier { released, arrived, .. } = &mut k.objs[*b] else { unreachable!() };
                        arrived.clear();
                        for m in members.iter().filter(|m| **m != t) {
                            released.push((*m, *m == leader));
                        }
                        outs.push(done(k, t, (leader == t) as i64, p, pol));
                    }
                    return Step::Next(outs);
                }
                n.phase[t] = 1;
                Step::Next(vec![n])
            }
            _ => {
                let MObj::Barrier { released, .. } = &mut n.objs[*b] else { unreachable!() };
                if let Some(i) = released.iter().position(|r| r.0 == t) {
                    let (_, leader) = released.remove(i);
                    fin!(leader as i64)
                }
                Step::Blocked
            }
        },
        Op::CallOnce { once, atom } => match ph {
            0 => {
                let MObj::Once { running, complete } = &mut n.objs[*once] else { unreachable!() };
                if *complete {
                    fin!(0)
                }
                if running.is_some() {
                    n.phase[t] = 3;
                    return Step::Next(vec![n]);
                }
                *running = Some(t);
                n.phase[t] = if atom.is_some() { 1 } else { 2 };
                Step::Next(vec![n])
            }
            1 => {
                let MObj::Atomic(v) = &mut n.objs[atom.unwrap()] else { unreachable!() };
                *v += 1;
                if pol.fuse.once_completion {
                    let MObj::Once { running, complete } = &mut n.objs[*once] else { unreachable!() };
                    *running = None;
                    *complete = true;
                    fin!(1)
                }
                n.phase[t] = 2;
                Step::Next(vec![n])
            }
            2 => {
                let MObj::Once { running, complete } = &mut n.objs[*once] else { unreachable!() };
                *running = None;
                *complete = true;
                fin!(1)
            }
            _ => {
                let MObj::Once { complete, .. } = &n.objs[*once] else { unreachable!() };
                if *complete {
                    fin!(0)
                }
                Step::Blocked
            }
        },
        Op::IsCompleted(once) => {
            let MObj::Once { complete, .. } = &n.objs[*once] else { unreachable!() };
            let c = *complete as i64;
            fin!(c)
        }
        Op::Send(ch, v) | Op::TrySend(ch, v) => {
            let blocking = matches!(op, Op::Send(..));
            if !n.tx_owned[*ch][t] {
                fin!(R_NOT_SPAWNED)
            }
            let MObj::Chan { cap, buf, rx_alive, wait_tx, rx_waiting, .. } = &mut n.objs[*ch] else { unreachable!() };
            if !*rx_alive {
                if ph == 1 {
                    wait_tx.retain(|x| *x != t);
                }
                fin!(R_DISCONNECTED)
            }
            let queued_ahead = if ph == 1 {
                pol.fifo_senders && wait_tx.first() != Some(&t)
            } else if blocking {
                !wait_tx.is_empty()
            } else {
                pol.try_send_reserve && !wait_tx.is_empty()
            };
            let room = match cap {
                None => true,
                Some(0) => *rx_waiting && buf.is_empty(),
                Some(k) => buf.len() < *k,
            };
            if room && !queued_ahead {
                if ph == 1 {
                    wait_tx.retain(|x| *x != t);
                }
                buf.push_back(*v);
                fin!(R_OK)
            }
            if !blocking {
                fin!(R_WOULDBLOCK)
            }
            if ph == 0 {
                wait_tx.push(t);
                n.phase[t] = 1;
                return Step::Next(vec![n]);
            }
            Step::Blocked
        }
        Op::Recv(ch) | Op::TryRecv(ch) => {
            let blocking = matches!(op, Op::Recv(..));
            if n.rx_owned[*ch] != Some(t) {
                fin!(R_NOT_SPAWNED)
            }
            let MObj::Chan { cap, buf, senders, wait_tx, rx_waiting, .. } = &mut n.objs[*ch] else { unreachable!() };
            if let Some(v) = buf.pop_front() {
                *rx_waiting = false;
                fin!(v)
            }
            if *senders == 0 {
                *rx_waiting = false;
                fin!(R_DISCONNECTED)
            }
            // a rendezvous try_recv meets a sender that is already waiting
            let rendezvous_meet = *cap == Some(0) && !wait_tx.is_empty();
            if !blocking && !rendezvous_meet {
                fin!(R_WOULDBLOCK)
            }
            if ph == 0 {
                *rx_waiting = true;
                n.phase[t] = 1;
                return Step::Next(vec![n]);
            }
            Step::Blocked
        }
        Op::DropTx(ch) => {
            if !n.tx_owned[*ch][t] {
                fin!(R_NOT_SPAWNED)
            }
            n.tx_owned[*ch][t] = false;
            let MObj::Chan { senders, .. } = &mut n.objs[*ch] else { unreachable!() };
            *senders -= 1;
            fin!(R_OK)
        }
        Op::DropRx(ch) => {
            if n.rx_owned[*ch] != Some(t) {
                fin!(R_NOT_SPAWNED)
            }
            n.rx_owned[*ch] = None;
            let MObj::Chan { rx_alive, rx_waiting, .. } = &mut n.objs[*ch] else { unreachable!() };
            *rx_alive = false;
            *rx_waiting = false;
            fin!(R_OK)
        }
        Op::Load(a) => {
            let MObj::Atomic(v) = &n.objs[*a] else { unreachable!() };
            let r = *v;
            fin!(r)
        }
        Op::Store(a, x) => {
            let MObj::Atomic(v) = &mut n.objs[*a] else { unreachable!() };
            *v = *x;
            fin!(R_OK)
        }
        Op::FetchAdd(a, x) => {
            let MObj::Atomic(v) = &mut n.objs[*a] else { unreachable!() };
            let r = *v;
            *v = v.wrapping_add(*x);
            fin!(r)
        }
        Op::Cas(a, old, new) => {
            let MObj::Atomic(v) = &mut n.objs[*a] else { unreachable!() };
            let r = *v;
            if r == *old {
                *v = *new;
                fin!(CAS_OK + r)
            }
            fin!(r)
        }
        Op::Swap(a, x) => {
            let MObj::Atomic(v) = &mut n.objs[*a] else { unreachable!() };
            let r = *v;
            *v = *x;
            fin!(r)
        }
        Op::Spawn(c) => {
            n.st[*c] = if p.tasks[*c].is_empty() { St::Finished } else { St::Live };
            n.spawner[*c] = Some(t);
            fin!(R_OK)
        }
        Op::Join(c) => {
            if n.spawner[*c] != Some(t) {
                fin!(R_NOT_SPAWNED)
            }
            if n.st[*c] != St::Finished {
                return Step::Blocked;
            }
            n.spawner[*c] = None;
            fin!(100 + *c as i64)
        }
        Op::Park => {
            if n.token[t] {
                n.token[t] = false;
                fin!(R_OK)
            }
            if ph == 0 {
                n.phase[t] = 1;
                return Step::Next(vec![n]);
            }
            Step::Blocked
        }
        Op::Unpark(c) => {
            if n.st[*c] == St::NotSpawned {
                fin!(R_NOT_SPAWNED)
            }
            if pol.fuse.park_handoff && parked(&n, *c, p) {
                // direct hand-off: the parked target's park completes here, no token is left
                n.phase[*c] = 0;
                let n2 = done(n, *c, R_OK, p, pol);
                return Step::Next(vec![done(n2, t, R_OK, p, pol)]);
            }
            n.token[*c] = true;
            fin!(R_OK)
        }
        Op::Yield => fin!(R_OK),
        Op::Acquire(sx, k) => {
            let MObj::Sem { avail, fair, queue, granted, closed } = &mut n.objs[*sx] else { unreachable!() };
            if ph == 1 {
                if let Some(i) = granted.iter().position(|x| *x == t) {
                    granted.remove(i);
                    fin!(R_OK)
                }
                if *closed {
                    queue.retain(|q| q.0 != t);
                    fin!(R_CLOSED)
                }
                if !*fair && *avail >= *k {
                    *avail -= *k;
                    queue.retain(|q| q.0 != t);
                    fin!(R_OK)
                }
                return Step::Blocked;
            }
            if *closed {
                fin!(R_CLOSED)
            }
            if *k == 0 || (*avail >= *k && (!*fair || queue.is_empty())) {
                *avail -= *k;
                fin!(R_OK)
            }
            queue.push((t, *k));
            n.phase[t] = 1;
            Step::Next(vec![n])
        }
        Op::TryAcquire(sx, k) => {
            let MObj::Sem { avail, fair, queue, closed, .. } = &mut n.objs[*sx] else { unreachable!() };
            if *closed {
                fin!(R_CLOSED)
            }
            if *k == 0 || (*avail >= *k && (!*fair || queue.is_empty())) {
                *avail -= *k;
                fin!(R_OK)
            }
            fin!(R_WOULDBLOCK)
        }
        Op::Release(sx, k) => {
            let MObj::Sem { avail, fair, queue, granted, closed } = &mut n.objs[*sx] else { unreachable!() };
            *avail += *k;
            if *fair && !*closed {
                while let Some((qt, qn)) = queue.first().copied() {
                    if qn <= *avail {
                        *avail -= qn;
                        queue.remove(0);
                        granted.push(qt);
                    } else {
                        break;
                    }
                }
            }
            fin!(R_OK)
        }
        Op::Close(sx) => {
            let MObj::Sem { closed, .. } = &mut n.objs[*sx] else { unreachable!() };
            *closed = true;
            fin!(R_OK)
        }
        Op::Avail(sx) => {
            let MObj::Sem { avail, .. } = &n.objs[*sx] else { unreachable!() };
            let r = *avail as i64;
            fin!(r)
        }
        Op::IsClosed(sx) => {
            let MObj::Sem { closed, .. } = &n.objs[*sx] else { unreachable!() };
            let r = *closed as i64;
            fin!(r)
        }
        Op::Rand => fin!(0),
    }
}

/// Is task `t` merely parked (blocked in `park` without a token)?
fn parked(s: &MState, t: usize, p: &Prog) -> bool {
    s.st[t] == St::Live && s.pc[t] < p.tasks[t].len() && matches!(p.tasks[t][s.pc[t]], Op::Park) && s.phase[t] == 1 && !s.token[t]
}

/// Enumerate all outcomes of `p` under `pol`. `cap` bounds the number of distinct model states.
pub fn outcomes(p: &Prog, pol: &Policy, cap: usize) -> ModelResult {
    let mut outs = BTreeSet::new();
    let mut seen: HashSet<MState> = HashSet::new();
    let mut stack = vec![init_state(p)];
    let mut complete = true;
    while let Some(s) = stack.pop() {
        if !seen.insert(s.clone()) {
            continue;
        }
        if seen.len() > cap {
            complete = false;
            break;
        }
        let live: Vec<usize> = (0..p.tasks.len()).filter(|t| s.st[*t] == St::Live).collect();
        if live.is_empty() {
            outs.insert(Outcome {
                results: s.results.clone(),
                term: MTerm::Pass,
            });
            continue;
        }
        let mut any = false;
        let mut succ = vec![];
        let mut panicked = false;
        let candidates: Vec<usize> = match s.fused {
            Some(t) => vec![t],
            None => live.clone(),
        };
        for &t in &candidates {
            match step_task(&s, t, p, pol) {
                Step::Blocked => {}
                Step::Next(v) => {
                    any = true;
                    succ.extend(v);
                }
                Step::Panic(k) => {
                    any = true;
                    panicked = true;
                    outs.insert(Outcome {
                        results: vec![],
                        term: MTerm::Panic(k),
                    });
                }
            }
        }
        let _ = panicked;
        if !any {
            outs.insert(Outcome {
                results: s.results.clone(),
                term: MTerm::Deadlock(live.clone()),
            });
            continue;
        }
        if pol.spurious_park && s.fused.is_none() {
            // a parked task may wake spuriously, but only while something else can really run
            for &t in &live {
                if parked(&s, t, p) {
                    let mut k = s.clone();
                    let k2 = {
                        k.phase[t] = 0;
                        done(k, t, R_OK, p, pol)
                    };
                    succ.push(k2);
                }
            }
        }
        stack.extend(succ);
    }
    ModelResult {
        outcomes: outs,
        states: seen.len(),
        complete,
    }
}

/// Which policy knobs can matter for this program?
pub fn relevant_policies(p: &Prog) -> Vec<Policy> {
    let has_bounded = p.objs.iter().any(|o| matches!(o, Obj::Chan(Some(_))));
    let has_barrier = p.objs.iter().any(|o| matches!(o, Obj::Barrier(_)));
    let has_park = p.tasks.iter().flatten().any(|o| matches!(o, Op::Park));
    let mut v = vec![];
    let bools = [false, true];
    for &fifo in if has_bounded { &bools[..] } else { &bools[1..] } {
        for &res in if has_bounded { &bools[..] } else { &bools[1..] } {
            for &lead in if has_barrier { &bools[..] } else { &bools[..1] } {
                for &sp in if has_park { &bools[..] } else { &bools[..1] } {
                    v.push(Policy {
                        fifo_senders: fifo,
                        try_send_reserve: res,
                        barrier_leader_any: lead,
                        spurious_park: sp,
                        fuse: Fuse::default(),
                    });
                }
            }
        }
    }
    v
}

pub struct MustMay {
    pub must: BTreeSet<Outcome>,
    pub may: BTreeSet<Outcome>,
    pub complete: bool,
    pub states: usize,
}

pub fn must_may(p: &Prog, cap: usize) -> MustMay {
    must_may_opt(p, cap, true)
}

/// `allow_spurious = false`: the behaviours on schedules without spurious wake-ups
pub fn must_may_opt(p: &Prog, cap: usize, allow_spurious: bool) -> MustMay {
    let m = outcomes(p, &Policy::documented(), cap);
    let mut may = m.outcomes.clone();
    let mut complete = m.complete;
    let mut states = m.states;
    for pol in relevant_policies(p) {
        if pol == Policy::documented() || (pol.spurious_park && !allow_spurious) {
            continue;
        }
        let r = outcomes(p, &pol, cap);
        complete &= r.complete;
        states += r.states;
        may.extend(r.outcomes);
    }
    MustMay {
        must: m.outcomes,
        may,
        complete,
        states,
    }
}

// ---------------------------------------------------------------------------------------------
// Trace conformance: is ONE observed execution a behaviour of the model?
//
// The outcome-set oracle above compares sets over all schedules; a deviation on one schedule can
// hide behind another schedule that legitimately produces the same outcome. Here a single execution
// is checked on its own: the body log gives, in one total order, the call and the return of every
// operation (written at the client boundary: call before invoking, return after the reply) and every
// spurious wake-up the scheduler chose. The execution conforms iff the model can take its steps such
// that every step of an operation lies between that operation's call and return, every return
// carries the model's result, spurious wake-ups happen exactly where they were observed, and the
// execution ends the way the model's final state says (all finished / exactly these tasks blocked /
// this panic). This is a linearizability check with the model as the sequential specification,
// extended to blocking multi-phase operations.

#[derive(Clone, Debug, PartialEq, Eq)]
pub enum ObsEv {
    Call(usize, usize),
    Ret(usize, usize, i64),
    Spurious(usize),
}

#[derive(Clone, Debug, PartialEq, Eq)]
pub enum Conf {
    Ok,
    /// (index of the first event no model run could get past, description)
    Mismatch(usize, String),
    Inconclusive,
}

fn conforms_pol(p: &Prog, evs: &[ObsEv], term: &MTerm, pol: &Policy, cap: usize) -> Conf {
    let nt = p.tasks.len();
    // per prefix length: how many ops of each task have been called / have returned
    let mut called = vec![vec![0usize; nt]; evs.len() + 1];
    let mut returned = vec![vec![0usize; nt]; evs.len() + 1];
    let mut obs_res: Vec<Vec<Option<i64>>> = p.tasks.iter().map(|t| vec![None; t.len()]).collect();
    for (i, e) in evs.iter().enumerate() {
        called[i + 1] = called[i].clone();
        returned[i + 1] = returned[i].clone();
        match e {
            ObsEv::Call(t, o) => {
                if *t >= nt || *o != called[i][*t] {
                    return Conf::Inconclusive; // log not in the expected shape
                }
                called[i + 1][*t] = o + 1;
            }
            ObsEv::Ret(t, o, r) => {
                if *t >= nt || *o != returned[i][*t] || *o >= p.tasks[*t].len() {
                    return Conf::Inconclusive;
                }
                returned[i + 1][*t] = o + 1;
                obs_res[*t][*o] = Some(*r);
            }
            ObsEv::Spurious(_) => {}
        }
    }
    let result_ok = |s: &MState, t: usize| -> bool {
        // the op just completed by the model is pc-1
        let o = s.pc[t] - 1;
        match obs_res[t][o] {
            Some(r) => matches!(p.tasks[t][o], Op::Rand) || s.results[t][o] == r,
            None => true, // never returned in the observation (execution ended first)
        }
    };
    let mut seen: HashSet<(usize, MState)> = HashSet::new();
    let mut stack: Vec<(usize, MState)> = vec![(0, init_state(p))];
    let mut furthest = 0usize;
    while let Some((i, s)) = stack.pop() {
        if !seen.insert((i, s.clone())) {
            continue;
        }
        if seen.len() > cap {
            return Conf::Inconclusive;
        }
        furthest = furthest.max(i);
        let live: Vec<usize> = (0..nt).filter(|t| s.st[*t] == St::Live).collect();
        // goal?
        if i == evs.len() {
            match term {
                MTerm::Pass => {
                    if live.is_empty() {
                        return Conf::Ok;
                    }
                }
                MTerm::Deadlock(ids) => {
                    if &live == ids && live.iter().all(|&t| s.pc[t] < called[i][t] && matches!(step_task(&s, t, p, pol), Step::Blocked)) {
                        return Conf::Ok;
                    }
                }
                MTerm::Panic(_) => {}
            }
        }
        // consume the next observed event
        if i < evs.len() {
            match &evs[i] {
                ObsEv::Call(t, o) => {
                    if s.st[*t] == St::Live && s.pc[*t] == *o {
                        stack.push((i + 1, s.clone()));
                    }
                }
                ObsEv::Ret(t, o, r) => {
                    if s.pc[*t] > *o && (matches!(p.tasks[*t][*o], Op::Rand) || s.results[*t][*o] == *r) {
                        stack.push((i + 1, s.clone()));
                    }
                }
                ObsEv::Spurious(t) => {
                    if *t < nt && parked(&s, *t, p) {
                        let mut k = s.clone();
                        k.phase[*t] = 0;
                        let k = done(k, *t, R_OK, p, pol);
                        if result_ok(&k, *t) {
                            stack.push((i + 1, k));
                        }
                    }
                }
            }
        }
        // model steps of operations that are in flight (called, not yet completed in the model)
        for &t in &live {
            let in_flight = s.pc[t] < called[i][t];
            let exiting = s.pc[t] >= p.tasks[t].len() && returned[i][t] >= p.tasks[t].len();
            if !in_flight && !exiting {
                continue;
            }
            match step_task(&s, t, p, pol) {
                Step::Blocked => {}
                Step::Next(v) => {
                    for k in v {
                        if k.pc[t] > s.pc[t] && !exiting && !result_ok(&k, t) {
                            continue;
                        }
                        stack.push((i, k));
                    }
                }
                Step::Panic(kind) => {
                    if i == evs.len() && *term == MTerm::Panic(kind) {
                        return Conf::Ok;
                    }
                }
            }
        }
    }
    let what = if furthest < evs.len() {
        format!("no model run gets past observed event #{furthest}: {:?}", evs[furthest])
    } else {
        format!("every observed operation is explained, but the model cannot end the execution as observed ({:?})", term)
    };
    Conf::Mismatch(furthest, what)
}

/// Does the observed execution conform to the model under at least one admissible policy?
pub fn conforms(p: &Prog, evs: &[ObsEv], term: &MTerm, cap: usize) -> Conf {
    if let MTerm::Panic(k) = term {
        if !k.starts_with("reentrant-") {
            return Conf::Inconclusive;
        }
    }
    let mut best: Option<(usize, String)> = None;
    let mut inconclusive = false;
    for pol in relevant_policies(p) {
        if pol.spurious_park {
            continue; // spurious wake-ups are observed events here, not a policy
        }
        match conforms_pol(p, evs, term, &pol, cap) {
            Conf::Ok => return Conf::Ok,
            Conf::Inconclusive => inconclusive = true,
            Conf::Mismatch(i, w) => {
                if best.as_ref().map(|b| i > b.0).unwrap_or(true) {
                    best = Some((i, w));
                }
            }
        }
    }
    if inconclusive {
        return Conf::Inconclusive;
    }
    match best {
        Some((i, w)) => Conf::Mismatch(i, w),
        None => Conf::Inconclusive,
    }
}
