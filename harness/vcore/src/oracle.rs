//! The two-sided oracle: explore a program on the real runtime, compare the observed outcome set
//! with the reference model (observed ⊆ MAY, MUST ⊆ observed under complete enumeration), run the
//! contract checker and the shadow invariants on every execution.
use crate::explore;
use crate::model::{self, Fuse, MTerm, Outcome, Policy};
use crate::prog::*;
use crate::rec::{self, Ev, Finished, Term};
use crate::util::{Report, Rng, Violation};
use serde_json::{json, Value};
use std::cell::RefCell;
use std::collections::{BTreeMap, BTreeSet};
use std::rc::Rc;
use std::sync::Arc;

/// Accumulator that worker threads fill and the main thread merges into the `Report`.
#[derive(Default)]
pub struct Acc {
    pub evaluations: u64,
    pub distinct: BTreeSet<u64>,
    pub violations: Vec<Violation>,
    pub samples: Vec<Value>,
    pub counters: BTreeMap<String, u64>,
    pub notes: Vec<String>,
    pub opkinds: BTreeSet<String>,
}

impl Acc {
    pub fn add(&mut self, k: &str, n: u64) {
        *self.counters.entry(k.to_string()).or_insert(0) += n;
    }
    pub fn violation(&mut self, sig: &str, what: String, witness: Value) {
        if self.violations.len() < 400 && self.violations.iter().filter(|v| v.sig == sig).count() < 3 {
            self.violations.push(Violation {
                sig: sig.to_string(),
                what,
                witness,
            });
        }
    }
    pub fn merge_into(self, r: &mut Report) {
        r.evaluations += self.evaluations;
        r.distinct.extend(self.distinct);
        for v in self.violations {
            r.violation(&v.sig, &v.what, v.witness);
        }
        for s in self.samples {
            r.sample(s);
        }
        for (k, n) in self.counters {
            r.add(&k, n);
        }
        for n in self.notes {
            if let Some(rest) = n.strip_prefix("hit-rate: ") {
                let mut v: Vec<Value> = r.extra.get("hit_rates").and_then(|v| v.as_array()).cloned().unwrap_or_default();
                v.push(json!(rest));
                r.set("hit_rates", Value::Array(v));
                continue;
            }
            if r.inconclusive.len() < 20 {
                r.inconclusive.push(n);
            }
        }
        let mut kinds: BTreeSet<String> = r
            .extra
            .get("op_kinds_covered")
            .and_then(|v| v.as_array())
            .map(|a| a.iter().filter_map(|x| x.as_str().map(|s| s.to_string())).collect())
            .unwrap_or_default();
        kinds.extend(self.opkinds);
        r.set("op_kinds_covered", json!(kinds));
    }
}

pub fn op_kind(op: &Op) -> String {
    let s = format!("{op:?}");
    s.split(|c: char| !c.is_alphanumeric()).next().unwrap_or("").to_string()
}

impl Acc {
    fn to_json(&self) -> Value {
        json!({
            "evaluations": self.evaluations,
            "distinct": self.distinct.iter().collect::<Vec<_>>(),
            "violations": self.violations.iter().map(|v| json!({"sig": v.sig, "what": v.what, "witness": v.witness})).collect::<Vec<_>>(),
            "samples": self.samples,
            "counters": self.counters,
            "notes": self.notes,
            "opkinds": self.opkinds,
        })
    }
    fn from_json(v: &Value) -> Acc {
        let mut a = Acc::default();
        a.evaluations = v["evaluations"].as_u64().unwrap_or(0);
        if let Some(d) = v["distinct"].as_array() {
            a.distinct = d.iter().filter_map(|x| x.as_u64()).collect();
        }
        if let Some(vs) = v["violations"].as_array() {
            for x in vs {
                a.violations.push(Violation {
                    sig: x["sig"].as_str().unwrap_or("").to_string(),
                    what: x["what"].as_str().unwrap_or("").to_string(),
                    witness: x["witness"].clone(),
                });
            }
        }
        if let Some(ss) = v["samples"].as_array() {
            a.samples = ss.clone();
        }
        if let Some(c) = v["counters"].as_object() {
            for (k, n) in c {
                a.counters.insert(k.clone(), n.as_u64().unwrap_or(0));
            }
        }
        if let Some(ns) = v["notes"].as_array() {
            a.notes = ns.iter().filter_map(|x| x.as_str().map(|s| s.to_string())).collect();
        }
        if let Some(ks) = v["opkinds"].as_array() {
            a.opkinds = ks.iter().filter_map(|x| x.as_str().map(|s| s.to_string())).collect();
        }
        a
    }
}

mod sys {
    extern "C" {
        pub fn fork() -> i32;
        pub fn pipe(fds: *mut i32) -> i32;
        pub fn waitpid(pid: i32, status: *mut i32, options: i32) -> i32;
        pub fn _exit(code: i32) -> !;
        pub fn close(fd: i32) -> i32;
        pub fn mmap(addr: *mut u8, len: usize, prot: i32, flags: i32, fd: i32, off: i64) -> *mut u8;
        pub fn kill(pid: i32, sig: i32) -> i32;
    }
}

/// Run `f` over items 0..n in `workers` forked single-threaded worker processes (Shuttle's stack
/// recycling makes mmap/munmap-heavy workloads contend badly between threads of one process).
/// A worker that dies (abort, signal) is an observation: the item it was working on is reported.
pub fn parallel<F>(n: usize, workers: usize, f: F) -> Vec<Acc>
where
    F: Fn(usize, &mut Acc) + Sync,
{
    use std::io::{Read, Write};
    use std::sync::atomic::{AtomicUsize, Ordering};
    let workers = workers.max(1).min(n.max(1));
    if workers == 1 || std::env::var("VERIF_NOFORK").is_ok() {
        rec::install_hook_observer();
        let mut acc = Acc::default();
        for i in 0..n {
            f(i, &mut acc);
        }
        return vec![acc];
    }
    // shared memory: [0] = next item, [1 + w] = item worker w is processing (+1), 0 = none
    // [0] = next item, [1 + w] = item worker w is processing (+1), [1 + workers + w] = when it started it (unix seconds)
    let words = 1 + 2 * workers;
    let shm = unsafe { sys::mmap(std::ptr::null_mut(), words * 8, 3, 0x21 /* MAP_SHARED|MAP_ANONYMOUS */, -1, 0) };
    assert!(!shm.is_null() && shm as isize != -1, "mmap failed");
    let cells: &[AtomicUsize] = unsafe { std::slice::from_raw_parts(shm as *const AtomicUsize, words) };
    for c in cells {
        c.store(0, Ordering::SeqCst);
    }
    let _ = std::io::stdout().flush();
    let dir = format!("{}/scratch/par-{}-{}", crate::util::out_dir(), std::process::id(), {
        static CALLS: AtomicUsize = AtomicUsize::new(0);
        CALLS.fetch_add(1, Ordering::SeqCst)
    });
    let _ = std::fs::create_dir_all(&dir);
    let mut accs = vec![];
    // A worker that dies only loses the item it was working on: results are written per item. A
    // worker that ends (retired because it grew large, or dead) is replaced while items remain.
    let mut live: Vec<(i32, usize, String)> = vec![]; // (pid, slot, result file)
    let mut spawned = 0usize;
    let max_spawn = workers * 64 + n;
    let spawn = |slot: usize, serial: usize| -> (i32, usize, String) {
        let path = format!("{dir}/w{slot}-{serial}.jsonl");
        cells[1 + slot].store(0, Ordering::SeqCst);
        let pid = unsafe { sys::fork() };
        assert!(pid >= 0, "fork failed");
        if pid == 0 {
            // child
            rec::install_hook_observer();
            let mut out = std::fs::File::create(&path).expect("create worker file");
            loop {
                let i = cells[0].fetch_add(1, Ordering::SeqCst);
                if i >= n {
                    break;
                }
                cells[1 + workers + slot].store(now_secs(), Ordering::SeqCst);
                cells[1 + slot].store(i + 1, Ordering::SeqCst);
                let mut acc = Acc::default();
                let r = std::panic::catch_unwind(std::panic::AssertUnwindSafe(|| f(i, &mut acc)));
                if r.is_err() {
                    acc.notes.push(format!("harness panicked on item {i}"));
                    acc.add("harness_errors", 1);
                }
                // An execution that ends while a task is suspended in the middle of unwinding leaves
                // this OS thread's panic count raised; Shuttle then behaves differently on this
                // thread (everything looks like "already panicking"). Never reuse such a thread.
                let tainted = std::thread::panicking();
                if tainted {
                    acc.add("workers_retired_panic_count_left_raised", 1);
                }
                let mut line = serde_json::to_string(&acc.to_json()).unwrap();
                line.push('\n');
                let _ = out.write_all(line.as_bytes());
                let _ = out.flush();
                cells[1 + slot].store(0, Ordering::SeqCst);
                // Shuttle deliberately leaks the stack contents of a failing execution, and the
                // explorers run millions of those: retire a worker that has grown large
                if rss_mb() > 2_500 || tainted {
                    break;
                }
            }
            drop(out);
            unsafe { sys::_exit(0) };
        }
        (pid, slot, path)
    };
    for w in 0..workers {
        live.push(spawn(w, spawned));
        spawned += 1;
    }
    // wall-clock watchdog per item: generous, and its firing is "inconclusive", never a violation
    let limit: usize = std::env::var("VERIF_ITEM_TIMEOUT_S").ok().and_then(|s| s.parse().ok()).unwrap_or_else(|| if std::env::var("VERIF_TIER").map(|t| t == "thorough").unwrap_or(false) { 7_200 } else { 1_800 });
    let mut watchdogged: Vec<i32> = vec![];
    while !live.is_empty() {
        let mut status = 0i32;
        let pid = unsafe { sys::waitpid(-1, &mut status, 1 /* WNOHANG */) };
        if pid == 0 {
            let now = now_secs();
            for (wpid, slot, _) in &live {
                let item = cells[1 + slot].load(Ordering::SeqCst);
                let started = cells[1 + workers + slot].load(Ordering::SeqCst);
                if item > 0 && started > 0 && now > started + limit && !watchdogged.contains(wpid) {
                    watchdogged.push(*wpid);
                    unsafe { sys::kill(*wpid, 9) };
                }
            }
            std::thread::sleep(std::time::Duration::from_millis(50));
            continue;
        }
        let Some(pos) = live.iter().position(|k| k.0 == pid) else {
            if pid < 0 {
                break;
            }
            continue; // some other child of this process (e.g. a sanitizer run)
        };
        let (_, slot, path) = live.remove(pos);
        let mut buf = String::new();
        if let Ok(mut fh) = std::fs::File::open(&path) {
            let _ = fh.read_to_string(&mut buf);
        }
        for line in buf.lines() {
            if let Ok(v) = serde_json::from_str::<Value>(line) {
                accs.push(Acc::from_json(&v));
            }
        }
        if watchdogged.contains(&pid) {
            let mut a = Acc::default();
            let item = cells[1 + slot].load(Ordering::SeqCst);
            a.add("watchdog_kills", 1);
            a.notes.push(format!("watchdog: item {} ran for more than {limit} s of wall-clock time and was abandoned (inconclusive, not a violation)", item.saturating_sub(1)));
            accs.push(a);
        } else if status != 0 {
            let mut a = Acc::default();
            let item = cells[1 + slot].load(Ordering::SeqCst);
            a.add("worker_deaths", 1);
            a.violation(
                "process-died",
                format!(
                    "worker process ended abnormally (wait status {status:#x}) while checking item {}",
                    if item > 0 { (item - 1).to_string() } else { "<none>".into() }
                ),
                json!({"item": item.saturating_sub(1), "status": status}),
            );
            accs.push(a);
        }
        if cells[0].load(Ordering::SeqCst) < n && spawned < max_spawn {
            live.push(spawn(slot, spawned));
            spawned += 1;
        }
    }
    let _ = std::fs::remove_dir_all(&dir);
    accs
}

fn now_secs() -> usize {
    std::time::SystemTime::now().duration_since(std::time::UNIX_EPOCH).map(|d| d.as_secs() as usize).unwrap_or(0)
}

fn rss_mb() -> usize {
    std::fs::read_to_string("/proc/self/statm")
        .ok()
        .and_then(|s| s.split_whitespace().nth(1).and_then(|x| x.parse::<usize>().ok()))
        .map(|pages| pages * 4096 / (1 << 20))
        .unwrap_or(0)
}

pub fn workers() -> usize {
    std::env::var("VERIF_WORKERS")
        .ok()
        .and_then(|s| s.parse().ok())
        .unwrap_or_else(|| std::thread::available_parallelism().map(|n| n.get()).unwrap_or(4).min(16))
}

#[derive(Clone, Debug)]
pub struct Observed {
    pub outcome: Outcome,
    pub choices: Vec<u32>,
}

pub struct Exploration {
    pub observed: BTreeMap<Outcome, Vec<u32>>,
    pub executions: u64,
    pub complete: bool,
    pub diverged: Option<String>,
    pub contract: Vec<(String, String, Vec<u32>)>,
    pub shadow: Vec<(String, Vec<u32>)>,
    pub hashes: BTreeSet<u64>,
    pub decisions: u64,
    pub max_steps_hit: u64,
    /// executions put through the trace-conformance checker / of which inconclusive / mismatches
    pub conf_checked: u64,
    pub conf_inconclusive: u64,
    pub conf_bad: Vec<(String, String, Vec<u32>)>,
}

fn panic_kind(msg: &str) -> String {
    if msg.contains("tried to acquire a Mutex it already holds") {
        "reentrant-mutex".into()
    } else if msg.contains("tried to acquire a RwLock it already holds") {
        "reentrant-rwlock".into()
    } else {
        let short: String = msg.chars().take(160).collect();
        format!("other: {short}")
    }
}

/// Translate what was seen of one execution into the model's outcome vocabulary.
pub fn outcome_of(prog: &Prog, world: Option<&Arc<World>>, log: &rec::ExecLog, term: &Term) -> Outcome {
    let results = world
        .map(|w| w.results.lock().unwrap().clone())
        .unwrap_or_else(|| vec![vec![]; prog.tasks.len()]);
    // map shuttle task ids to dsl tasks
    let mut map: BTreeMap<usize, usize> = BTreeMap::new();
    map.insert(0, 0);
    for e in &log.events {
        if let Ev::Body { tag, a, b, .. } = e {
            if tag & TAG_SPAWNMAP != 0 {
                map.insert(*b as usize, *a as usize);
            }
        }
    }
    let term = match term {
        Term::Pass => MTerm::Pass,
        Term::Deadlock(ids) => {
            let mut v: Vec<usize> = ids.iter().map(|i| map.get(i).copied().unwrap_or(1000 + *i)).collect();
            v.sort();
            MTerm::Deadlock(v)
        }
        Term::StepBound => MTerm::Panic("step-bound".into()),
        Term::Panic(m) => MTerm::Panic(panic_kind(m)),
    };
    let results = if matches!(term, MTerm::Panic(_)) { vec![] } else { results };
    Outcome { results, term }
}

/// The observed execution as the conformance checker wants it: calls, returns and chosen spurious
/// wake-ups in log order, in terms of the program's task indices.
pub fn observed_events(prog: &Prog, log: &rec::ExecLog) -> Vec<model::ObsEv> {
    let mut map: BTreeMap<usize, usize> = BTreeMap::new();
    map.insert(0, 0);
    let mut out = vec![];
    for e in &log.events {
        match e {
            Ev::Body { tag, a, b, .. } => {
                if tag & TAG_SPAWNMAP != 0 {
                    map.insert(*b as usize, *a as usize);
                } else if tag & TAG_START != 0 {
                } else if tag & TAG_CALL != 0 {
                    if *a == 0 {
                        out.push(model::ObsEv::Call(tag_task(*tag), tag_op(*tag)));
                    }
                } else if tag_task(*tag) < prog.tasks.len() {
                    out.push(model::ObsEv::Ret(tag_task(*tag), tag_op(*tag), *a));
                }
            }
            Ev::Decision(d) => {
                if let Some(c) = d.choice {
                    let flags = d.offered.iter().find(|(id, _)| *id == c).map(|x| x.1).unwrap_or(0);
                    if flags & rec::F_BLOCKED != 0 && flags & rec::F_SPURIOUS != 0 {
                        out.push(model::ObsEv::Spurious(map.get(&c).copied().unwrap_or(usize::MAX)));
                    }
                }
            }
            _ => {}
        }
    }
    out
}

pub enum Mode {
    /// exhaustive enumeration with a cap on executions
    Enum(u64),
    /// exhaustive enumeration of the schedules without spurious wake-ups
    EnumNoSpurious(u64),
    /// RandomScheduler, `iters` executions in total, spread over runs that restart after a failure
    Random { seed: u64, iters: u64 },
    /// PctScheduler
    Pct { seed: u64, depth: usize, iters: u64 },
}

pub fn explore_prog(prog: &Prog, mode: Mode, clocks: bool) -> Exploration {
    let slot: Arc<std::sync::Mutex<Option<Arc<World>>>> = Arc::new(std::sync::Mutex::new(None));
    let ex = Rc::new(RefCell::new(Exploration {
        observed: BTreeMap::new(),
        executions: 0,
        complete: false,
        diverged: None,
        contract: vec![],
        shadow: vec![],
        hashes: BTreeSet::new(),
        decisions: 0,
        max_steps_hit: 0,
        conf_checked: 0,
        conf_inconclusive: 0,
        conf_bad: vec![],
    }));
    let p2 = prog.clone();
    let s2 = slot.clone();
    let body = move || run_prog(&p2, clocks, &s2);
    let mut cfg = rec::base_config();
    cfg.max_steps = shuttle::MaxSteps::FailAfter(20_000);

    let handle = {
        let ex = ex.clone();
        let slot = slot.clone();
        let prog = prog.clone();
        move |f: Finished, term: Term| {
            let world = slot.lock().unwrap().take();
            let mut ex = ex.borrow_mut();
            ex.executions += 1;
            let choices = rec::choice_seq(&f.log);
            ex.decisions += choices.len() as u64;
            if rec::nontrivial(&f.log) {
                ex.hashes.insert(rec::hash_choices(&f.log));
            }
            for (sig, what) in rec::contract_check(&f.log, Some(&f.runtime_schedule)) {
                if ex.contract.len() < 8 {
                    ex.contract.push((sig, what, choices.clone()));
                }
            }
            if let Some(w) = &world {
                let sh = w.shadow.lock().unwrap();
                for v in sh.violations.iter() {
                    if ex.shadow.len() < 8 {
                        ex.shadow.push((v.clone(), choices.clone()));
                    }
                }
            }
            if term == Term::StepBound {
                ex.max_steps_hit += 1;
            }
            let o = outcome_of(&prog, world.as_ref(), &f.log, &term);
            // trace conformance of this one execution (all of the first executions, then a sample)
            if term != Term::StepBound && (ex.executions <= 2_000 || ex.executions % 16 == 0) && ex.conf_bad.len() < 4 {
                let evs = observed_events(&prog, &f.log);
                match model::conforms(&prog, &evs, &o.term, 30_000) {
                    model::Conf::Ok => ex.conf_checked += 1,
                    model::Conf::Inconclusive => ex.conf_inconclusive += 1,
                    model::Conf::Mismatch(i, what) => {
                        ex.conf_checked += 1;
                        let kind = match evs.get(i) {
                            Some(model::ObsEv::Call(t, o)) | Some(model::ObsEv::Ret(t, o, _)) => op_kind(&prog.tasks[*t][*o]),
                            Some(model::ObsEv::Spurious(_)) => "spurious-wake-up".to_string(),
                            None => match &o.term {
                                MTerm::Pass => "end:pass".to_string(),
                                MTerm::Deadlock(_) => "end:deadlock".to_string(),
                                MTerm::Panic(_) => "end:panic".to_string(),
                            },
                        };
                        let trace: Vec<String> = evs.iter().map(|e| format!("{e:?}")).collect();
                        ex.conf_bad.push((kind, format!("{what}; observed events: [{}]", trace.join(", ")), choices.clone()));
                    }
                }
            }
            ex.observed.entry(o).or_insert(choices);
            if let Some(w) = &world {
                w.forget_endpoints();
            }
        }
    };

    match mode {
        Mode::Enum(cap) | Mode::EnumNoSpurious(cap) => {
            let r = explore::enumerate_opt(body, cfg, cap, matches!(mode, Mode::EnumNoSpurious(_)), handle);
            let mut e = ex.borrow_mut();
            e.complete = r.complete;
            e.diverged = r.diverged;
        }
        Mode::Random { seed, iters } => {
            let handle = Rc::new(RefCell::new(handle));
            let mut rng = Rng::new(seed);
            let mut left = iters;
            while left > 0 {
                let before = ex.borrow().executions;
                let h2 = handle.clone();
                let sched = shuttle::scheduler::RandomScheduler::new_from_seed(rng.next(), left as usize);
                let pending: Rc<RefCell<Option<Finished>>> = Rc::new(RefCell::new(None));
                let pe = pending.clone();
                let rr = rec::run_streamed(sched, cfg.clone(), body.clone(), move |f| {
                    if std::thread::panicking() {
                        *pe.borrow_mut() = Some(f);
                    } else {
                        (h2.borrow_mut())(f, Term::Pass);
                    }
                });
                if let Some(f) = pending.borrow_mut().take() {
                    (handle.borrow_mut())(f, rr.term.clone());
                }
                let done = ex.borrow().executions - before;
                left = left.saturating_sub(done.max(1));
            }
        }
        Mode::Pct { seed, depth, iters } => {
            let handle = Rc::new(RefCell::new(handle));
            let mut rng = Rng::new(seed);
            let mut left = iters;
            while left > 0 {
                let before = ex.borrow().executions;
                let h2 = handle.clone();
                let sched = shuttle::scheduler::PctScheduler::new_from_seed(rng.next(), depth, left as usize);
                let pending: Rc<RefCell<Option<Finished>>> = Rc::new(RefCell::new(None));
                let pe = pending.clone();
                let rr = rec::run_streamed(sched, cfg.clone(), body.clone(), move |f| {
                    if std::thread::panicking() {
                        *pe.borrow_mut() = Some(f);
                    } else {
                        (h2.borrow_mut())(f, Term::Pass);
                    }
                });
                if let Some(f) = pending.borrow_mut().take() {
                    (handle.borrow_mut())(f, rr.term.clone());
                }
                let done = ex.borrow().executions - before;
                left = left.saturating_sub(done.max(1));
            }
        }
    }
    let e = std::mem::replace(
        &mut *ex.borrow_mut(),
        Exploration {
            observed: BTreeMap::new(),
            executions: 0,
            complete: false,
            diverged: None,
            contract: vec![],
            shadow: vec![],
            hashes: BTreeSet::new(),
            decisions: 0,
            max_steps_hit: 0,
        conf_checked: 0,
        conf_inconclusive: 0,
        conf_bad: vec![],
        },
    );
    e
}

fn outcome_json(o: &Outcome) -> Value {
    json!({"results": o.results, "term": format!("{:?}", o.term)})
}

fn fuse_candidates(prog: &Prog) -> Vec<(&'static str, Fuse)> {
    let ops: Vec<&Op> = prog.tasks.iter().flatten().collect();
    let mut v: Vec<(&'static str, Fuse)> = vec![];
    if ops.iter().any(|o| matches!(o, Op::DropTx(_))) {
        v.push(("mpsc::Sender::drop", Fuse { drop_tx: true, ..Default::default() }));
    }
    if ops.iter().any(|o| matches!(o, Op::DropRx(_))) {
        v.push(("mpsc::Receiver::drop", Fuse { drop_rx: true, ..Default::default() }));
    }
    if ops.iter().any(|o| matches!(o, Op::IsCompleted(_))) {
        v.push(("Once::is_completed", Fuse { is_completed: true, ..Default::default() }));
    }
    if ops.iter().any(|o| matches!(o, Op::Avail(_))) {
        v.push(("BatchSemaphore::available_permits", Fuse { avail: true, ..Default::default() }));
    }
    if ops.iter().any(|o| matches!(o, Op::IsClosed(_))) {
        v.push(("BatchSemaphore::is_closed", Fuse { is_closed: true, ..Default::default() }));
    }
    if ops.iter().any(|o| matches!(o, Op::BarrierWait(_))) {
        v.push(("Barrier::wait(blocking)", Fuse { barrier_blocking_arrival: true, ..Default::default() }));
    }
    if ops.iter().any(|o| matches!(o, Op::Park)) && ops.iter().any(|o| matches!(o, Op::Unpark(_))) {
        v.push(("park/unpark(hand-off)", Fuse { park_handoff: true, ..Default::default() }));
    }
    if ops.iter().any(|o| matches!(o, Op::CallOnce { atom: Some(_), .. })) {
        v.push(("Once::completion", Fuse { once_completion: true, ..Default::default() }));
    }
    v
}

fn merge_fuse(a: Fuse, b: Fuse) -> Fuse {
    Fuse {
        drop_tx: a.drop_tx || b.drop_tx,
        drop_rx: a.drop_rx || b.drop_rx,
        is_completed: a.is_completed || b.is_completed,
        avail: a.avail || b.avail,
        is_closed: a.is_closed || b.is_closed,
        once_completion: a.once_completion || b.once_completion,
        barrier_blocking_arrival: a.barrier_blocking_arrival || b.barrier_blocking_arrival,
        park_handoff: a.park_handoff || b.park_handoff,
    }
}

/// Try to explain missing MUST outcomes by "no choice point before op kind K" deviations of the
/// model. Returns the smallest set of op kinds whose fusion makes every model outcome observed.
fn diagnose_missing(prog: &Prog, observed: &BTreeSet<Outcome>, cap: usize) -> Option<Vec<&'static str>> {
    let cands = fuse_candidates(prog);
    let n = cands.len();
    let mut best: Option<Vec<&'static str>> = None;
    for mask in 1u32..(1 << n) {
        let mut f = Fuse::default();
        let mut names = vec![];
        for (i, (name, fu)) in cands.iter().enumerate() {
            if mask & (1 << i) != 0 {
                f = merge_fuse(f, *fu);
                names.push(*name);
            }
        }
        if let Some(b) = &best {
            if names.len() >= b.len() {
                continue;
            }
        }
        let mut pol = Policy::documented();
        pol.fuse = f;
        let r = model::outcomes(prog, &pol, cap);
        if r.complete && r.outcomes.iter().all(|o| observed.contains(o)) {
            best = Some(names);
        }
    }
    best
}

pub struct Verdicts {
    pub must_checked: bool,
}

/// Full two-sided check of one program. `id` is the property the run is for; completeness misses
/// are violations only when `judge_completeness` is set (C02), otherwise they are only counted.
pub fn check_prog(
    prog: &Prog,
    mode: Mode,
    acc: &mut Acc,
    judge_completeness: bool,
    label: &str,
) -> Verdicts {
    for op in prog.tasks.iter().flatten() {
        acc.opkinds.insert(op_kind(op));
    }
    let is_enum = matches!(mode, Mode::Enum(_) | Mode::EnumNoSpurious(_));
    let t0 = std::time::Instant::now();
    let mm = model::must_may_opt(prog, 400_000, !matches!(mode, Mode::EnumNoSpurious(_)));
    let t_model = t0.elapsed().as_secs_f64();
    if !mm.complete {
        acc.add("programs_model_over_cap", 1);
        return Verdicts { must_checked: false };
    }
    acc.add("model_states", mm.states as u64);
    let t1 = std::time::Instant::now();
    let ex = explore_prog(prog, mode, false);
    let t_real = t1.elapsed().as_secs_f64();
    if std::env::var("VERIF_PROFILE").is_ok() {
        println!("PROFILE {label}: model {t_model:.2}s ({} states) real {t_real:.2}s ({} execs, complete={})", mm.states, ex.executions, ex.complete);
    }
    acc.evaluations += ex.executions;
    acc.add("decisions_checked", ex.decisions);
    acc.distinct.extend(ex.hashes.iter().copied());
    acc.add("programs", 1);
    let wit = |choices: &Vec<u32>, extra: Value| json!({"family": label, "program": prog.describe(), "choices": choices, "detail": extra});

    if let Some(d) = &ex.diverged {
        acc.violation(
            "C01:enumeration-diverged",
            format!("same choice prefix led to a different runnable set: {d}"),
            wit(&vec![], json!(null)),
        );
    }
    for (sig, what, ch) in &ex.contract {
        acc.violation(&format!("C08:{sig}"), what.clone(), wit(ch, json!(null)));
    }
    for (what, ch) in &ex.shadow {
        acc.violation("exclusion", what.clone(), wit(ch, json!(null)));
    }
    acc.add("executions_trace_conformance_checked", ex.conf_checked);
    acc.add("executions_trace_conformance_inconclusive", ex.conf_inconclusive);
    for (kind, what, ch) in &ex.conf_bad {
        acc.violation(&format!("trace-nonconformant:{kind}"), format!("this execution, on its own, is not a behaviour of the reference model: {what}"), wit(ch, json!(null)));
    }
    let observed: BTreeSet<Outcome> = ex.observed.keys().cloned().collect();
    acc.add("distinct_outcomes_observed", observed.len() as u64);
    // soundness
    for (o, ch) in &ex.observed {
        if !mm.may.contains(o) {
            let kind = match &o.term {
                MTerm::Pass => "result-not-allowed",
                MTerm::Deadlock(_) => "deadlock-not-allowed",
                MTerm::Panic(_) => "panic-not-allowed",
            };
            // closest allowed outcome for the report
            let near = mm
                .may
                .iter()
                .min_by_key(|m| (m.term != o.term) as usize * 100 + diff(&m.results, &o.results))
                .map(outcome_json);
            acc.violation(
                &format!("unsound:{kind}"),
                format!("observed outcome is not allowed by the reference model: {:?} {:?}", o.results, o.term),
                wit(ch, json!({"observed": outcome_json(o), "nearest_allowed": near, "n_allowed": mm.may.len()})),
            );
        }
    }
    // completeness
    let mut must_checked = false;
    if is_enum && ex.complete {
        must_checked = true;
        acc.add("programs_completely_enumerated", 1);
        let missing: Vec<&Outcome> = mm.must.iter().filter(|o| !observed.contains(*o)).collect();
        if !missing.is_empty() {
            acc.add("programs_with_missing_must", 1);
            let explained = diagnose_missing(prog, &observed, 400_000);
            let sigs: Vec<String> = match &explained {
                Some(kinds) => kinds.iter().map(|k| format!("missing-choice-point:{k}")).collect(),
                None => vec!["missing-outcome:unexplained".to_string()],
            };
            let sig = sigs.join("+");
            for sig in sigs.iter().filter(|_| judge_completeness) {
                acc.violation(
                    sig,
                    format!(
                        "{} outcome(s) required by the model were never produced although the whole choice tree ({} schedules) was enumerated; e.g. {:?} {:?}",
                        missing.len(),
                        ex.executions,
                        missing[0].results,
                        missing[0].term
                    ),
                    wit(&vec![], json!({"missing": missing.iter().take(3).map(|o| outcome_json(o)).collect::<Vec<_>>(), "observed": observed.iter().take(6).map(outcome_json).collect::<Vec<_>>()})),
                );
            }
            if !judge_completeness {
                acc.add(&format!("completeness_miss[{sig}]"), 1);
            }
        }
    } else if is_enum {
        acc.add("programs_enumeration_incomplete", 1);
    }
    if acc.samples.len() < 3 {
        acc.samples.push(json!({"family": label, "program": prog.describe(), "executions": ex.executions, "complete": ex.complete,
            "outcomes_observed": observed.len(), "must": mm.must.len(), "may": mm.may.len(),
            "example_outcome": observed.iter().next().map(outcome_json)}));
    }
    Verdicts { must_checked }
}

fn diff(a: &Vec<Vec<i64>>, b: &Vec<Vec<i64>>) -> usize {
    let mut d = 0;
    for (x, y) in a.iter().zip(b.iter()) {
        d += x.len().abs_diff(y.len());
        d += x.iter().zip(y.iter()).filter(|(p, q)| p != q).count();
    }
    d + a.len().abs_diff(b.len())
}
