//! Seeded generators of bounded programs, one family per primitive class, plus the hand-written
//! hostile corpus. Generated programs are well-formed unless the family is about the ill-formed case.
use crate::prog::*;
use crate::util::Rng;

#[derive(Clone, Copy, Debug, PartialEq, Eq)]
pub enum Family {
    Atomics,
    Mutex,
    RwLock,
    Condvar,
    Barrier,
    Once,
    Park,
    ChanUnbounded,
    ChanBounded,
    ChanRendezvous,
    Sem,
    Mixed,
    Reentrant,
}

pub const ALL_FAMILIES: &[Family] = &[
    Family::Atomics,
    Family::Mutex,
    Family::RwLock,
    Family::Condvar,
    Family::Barrier,
    Family::Once,
    Family::Park,
    Family::ChanUnbounded,
    Family::ChanBounded,
    Family::ChanRendezvous,
    Family::Sem,
    Family::Mixed,
];

struct B {
    objs: Vec<Obj>,
    tasks: Vec<Vec<Op>>,
    senders: Vec<(usize, Vec<usize>)>,
    receivers: Vec<(usize, usize)>,
}

impl B {
    fn new(ntasks: usize) -> Self {
        B {
            objs: vec![],
            tasks: vec![vec![]; ntasks],
            senders: vec![],
            receivers: vec![],
        }
    }
    fn obj(&mut self, o: Obj) -> usize {
        self.objs.push(o);
        self.objs.len() - 1
    }
    /// wrap: main spawns every child first, runs its own ops, then joins all
    fn finish(mut self, join: bool) -> Prog {
        let n = self.tasks.len();
        let mut main = vec![];
        for c in 1..n {
            main.push(Op::Spawn(c));
        }
        main.append(&mut self.tasks[0]);
        if join {
            for c in 1..n {
                main.push(Op::Join(c));
            }
        }
        self.tasks[0] = main;
        Prog {
            objs: self.objs,
            tasks: self.tasks,
            senders: self.senders,
            receivers: self.receivers,
        }
    }
}

fn small(rng: &mut Rng, lo: usize, hi: usize) -> usize {
    rng.range(lo, hi)
}

pub fn generate(f: Family, rng: &mut Rng, size: usize) -> Prog {
    // size: 0 = tiny (fully enumerable quickly), 1 = small, 2 = medium (sampling only)
    let (tmax, omax) = match size {
        0 => (2, 2),
        1 => (3, 3),
        _ => (4, 5),
    };
    match f {
        Family::Atomics => {
            let nt = small(rng, 2, tmax) + 1;
            let mut b = B::new(nt);
            let na = small(rng, 1, 2);
            let atoms: Vec<usize> = (0..na).map(|_| b.obj(Obj::Atomic(0))).collect();
            for t in 0..nt {
                let k = if t == 0 { small(rng, 0, 2) } else { small(rng, 1, omax) };
                for _ in 0..k {
                    let a = *rng.pick(&atoms);
                    let op = match rng.below(6) {
                        0 => Op::Load(a),
                        1 => Op::Store(a, small(rng, 1, 3) as i64),
                        // read-modify-writes that leave the value unchanged are writes too
                        2 => Op::FetchAdd(a, if rng.chance(1, 4) { 0 } else { small(rng, 1, 2) as i64 }),
                        3 => {
                            let old = small(rng, 0, 2) as i64;
                            Op::Cas(a, old, if rng.chance(1, 4) { old } else { small(rng, 3, 5) as i64 })
                        }
                        4 => Op::Swap(a, small(rng, 6, 8) as i64),
                        _ => Op::Load(a),
                    };
                    b.tasks[t].push(op);
                }
            }
            b.finish(rng.chance(3, 4))
        }
        Family::Mutex => {
            let nt = small(rng, 2, tmax) + 1;
            let mut b = B::new(nt);
            let nm = small(rng, 1, 2);
            let ms: Vec<usize> = (0..nm).map(|_| b.obj(Obj::Mutex)).collect();
            let a = b.obj(Obj::Atomic(0));
            for t in 0..nt {
                let k = if t == 0 { small(rng, 0, 1) } else { small(rng, 1, omax.min(3)) };
                let mut held: Vec<usize> = vec![];
                for _ in 0..k {
                    let m = *rng.pick(&ms);
                    if held.contains(&m) {
                        if rng.chance(1, 3) {
                            b.tasks[t].push(Op::FetchAdd(a, 1));
                        }
                        b.tasks[t].push(Op::Unlock(m));
                        held.retain(|x| *x != m);
                    } else if rng.chance(1, 2) {
                        b.tasks[t].push(Op::Lock(m));
                        held.push(m);
                    } else {
                        b.tasks[t].push(Op::TryLock(m));
                        // result unknown statically: follow with an unconditional Unlock, which is a
                        // no-op (-9) if the try failed
                        held.push(m);
                    }
                }
                for m in held {
                    b.tasks[t].push(Op::Unlock(m));
                }
            }
            b.finish(rng.chance(3, 4))
        }
        Family::RwLock => {
            let nt = small(rng, 2, tmax) + 1;
            let mut b = B::new(nt);
            let l = b.obj(Obj::RwLock);
            for t in 0..nt {
                let k = if t == 0 { small(rng, 0, 1) } else { small(rng, 1, 2) };
                for _ in 0..k {
                    match rng.below(4) {
                        0 => {
                            b.tasks[t].push(Op::Read(l));
                            b.tasks[t].push(Op::RUnlock(l));
                        }
                        1 => {
                            b.tasks[t].push(Op::Write(l));
                            b.tasks[t].push(Op::WUnlock(l));
                        }
                        2 => {
                            b.tasks[t].push(Op::TryRead(l));
                            b.tasks[t].push(Op::RUnlock(l));
                        }
                        _ => {
                            b.tasks[t].push(Op::TryWrite(l));
                            b.tasks[t].push(Op::WUnlock(l));
                        }
                    }
                }
            }
            b.finish(rng.chance(3, 4))
        }
        Family::Condvar => {
            let nw = small(rng, 1, if size == 0 { 1 } else { 2 });
            let nn = small(rng, 1, 2);
            let nt = 1 + nw + nn;
            let mut b = B::new(nt);
            let m = b.obj(Obj::Mutex);
            let cv = b.obj(Obj::Condvar);
            for t in 1..=nw {
                b.tasks[t] = vec![Op::Lock(m), Op::Wait { cv, m }, Op::Unlock(m)];
            }
            for t in (1 + nw)..nt {
                let mut v = vec![];
                let locked = rng.chance(1, 2);
                if locked {
                    v.push(Op::Lock(m));
                }
                v.push(if rng.chance(2, 3) { Op::NotifyOne(cv) } else { Op::NotifyAll(cv) });
                if locked {
                    v.push(Op::Unlock(m));
                }
                if size > 0 && rng.chance(1, 3) {
                    v.push(Op::NotifyOne(cv));
                }
                b.tasks[t] = v;
            }
            b.finish(true)
        }
        Family::Barrier => {
            let nt = small(rng, 2, tmax) + 1;
            let mut b = B::new(nt);
            let n = small(rng, 0, nt.min(3));
            let bar = b.obj(Obj::Barrier(n));
            let a = b.obj(Obj::Atomic(0));
            for t in 0..nt {
                if t == 0 && rng.chance(1, 2) {
                    continue;
                }
                let mut v = vec![];
                if rng.chance(1, 2) {
                    v.push(Op::FetchAdd(a, 1));
                }
                v.push(Op::BarrierWait(bar));
                if rng.chance(1, 2) {
                    v.push(Op::Load(a));
                }
                if size > 0 && rng.chance(1, 4) {
                    v.push(Op::BarrierWait(bar));
                }
                b.tasks[t] = v;
            }
            b.finish(true)
        }
        Family::Once => {
            let nt = small(rng, 2, tmax) + 1;
            let mut b = B::new(nt);
            let o = b.obj(Obj::Once);
            let a = b.obj(Obj::Atomic(0));
            for t in 0..nt {
                let k = if t == 0 { small(rng, 0, 1) } else { small(rng, 1, 2) };
                for _ in 0..k {
                    let op = match rng.below(4) {
                        0 | 1 => Op::CallOnce {
                            once: o,
                            atom: if rng.chance(1, 2) { Some(a) } else { None },
                        },
                        2 => Op::IsCompleted(o),
                        _ => Op::Load(a),
                    };
                    b.tasks[t].push(op);
                }
            }
            b.finish(rng.chance(3, 4))
        }
        Family::Park => {
            let nt = small(rng, 1, tmax.min(2)) + 1;
            let mut b = B::new(nt);
            let a = b.obj(Obj::Atomic(0));
            for t in 0..nt {
                let k = small(rng, 1, 2);
                for _ in 0..k {
                    let op = match rng.below(4) {
                        0 => Op::Park,
                        1 | 2 => {
                            // only main or earlier-numbered tasks are certainly spawned; unpark of a
                            // not-yet-spawned task is a defined no-op (-9) in both model and harness
                            // main runs its own ops after all spawns; a child may only rely on
                            // main and on children spawned before it
                            let tgt = if t == 0 { 1 + rng.below(nt - 1) } else { rng.below(t) };
                            Op::Unpark(tgt)
                        }
                        _ => Op::FetchAdd(a, 1),
                    };
                    b.tasks[t].push(op);
                }
            }
            // joins would turn most parks into deadlocks of main too; keep both variants
            b.finish(rng.chance(1, 2))
        }
        Family::ChanUnbounded | Family::ChanBounded | Family::ChanRendezvous => {
            let cap = match f {
                Family::ChanUnbounded => None,
                Family::ChanBounded => Some(small(rng, 1, 2)),
                _ => Some(0),
            };
            let nsend = small(rng, 1, if size == 0 { 1 } else { 2 });
            let nt = 1 + nsend + 1;
            let mut b = B::new(nt);
            let ch = b.obj(Obj::Chan(cap));
            let rx_task = nt - 1;
            let senders: Vec<usize> = (1..=nsend).collect();
            b.senders.push((ch, senders.clone()));
            b.receivers.push((ch, rx_task));
            let mut next = 1i64;
            for &s in &senders {
                let k = small(rng, 1, if size == 0 { 1 } else { 2 });
                for _ in 0..k {
                    let v = next;
                    next += 1;
                    b.tasks[s].push(if cap.is_some() && rng.chance(1, 3) {
                        Op::TrySend(ch, v)
                    } else {
                        Op::Send(ch, v)
                    });
                }
                if rng.chance(2, 3) {
                    b.tasks[s].push(Op::DropTx(ch));
                }
            }
            let k = small(rng, 1, omax.min(3));
            for _ in 0..k {
                b.tasks[rx_task].push(if rng.chance(1, 3) { Op::TryRecv(ch) } else { Op::Recv(ch) });
            }
            if rng.chance(1, 3) {
                b.tasks[rx_task].push(Op::DropRx(ch));
            }
            b.finish(rng.chance(1, 2))
        }
        Family::Sem => {
            let nt = small(rng, 2, tmax) + 1;
            let mut b = B::new(nt);
            let permits = small(rng, 0, 2);
            let fair = rng.chance(1, 2);
            let s = b.obj(Obj::Sem { permits, fair });
            for t in 0..nt {
                let k = if t == 0 { small(rng, 0, 1) } else { small(rng, 1, omax.min(3)) };
                for _ in 0..k {
                    let n = small(rng, 1, 2);
                    let op = match rng.below(8) {
                        0 | 1 => Op::Acquire(s, n),
                        2 => Op::TryAcquire(s, n),
                        3 | 4 => Op::Release(s, n),
                        5 => Op::Avail(s),
                        6 => {
                            if rng.chance(1, 3) {
                                Op::Close(s)
                            } else {
                                Op::Release(s, 1)
                            }
                        }
                        _ => Op::IsClosed(s),
                    };
                    b.tasks[t].push(op);
                }
            }
            b.finish(rng.chance(1, 2))
        }
        Family::Mixed => {
            let nt = small(rng, 2, tmax) + 1;
            let mut b = B::new(nt);
            let m = b.obj(Obj::Mutex);
            let a = b.obj(Obj::Atomic(0));
            let ch = b.obj(Obj::Chan(None));
            b.senders.push((ch, vec![1]));
            b.receivers.push((ch, 0));
            // every sent value is unique, so that a receive identifies the send it observed
            let mut next_msg = 5i64;
            for t in 0..nt {
                let k = small(rng, 1, omax.min(3));
                let mut held = false;
                for _ in 0..k {
                    let op = match rng.below(7) {
                        0 if !held => {
                            held = true;
                            Op::Lock(m)
                        }
                        0 | 1 if held => {
                            held = false;
                            Op::Unlock(m)
                        }
                        2 => Op::FetchAdd(a, 1),
                        3 => Op::Load(a),
                        4 if t == 1 => {
                            next_msg += 1;
                            Op::Send(ch, next_msg)
                        }
                        4 | 5 if t == 0 => Op::TryRecv(ch),
                        6 => Op::Yield,
                        _ => Op::Store(a, 9),
                    };
                    b.tasks[t].push(op);
                }
                if held {
                    b.tasks[t].push(Op::Unlock(m));
                }
            }
            b.finish(rng.chance(3, 4))
        }
        Family::Reentrant => {
            let nt = 2;
            let mut b = B::new(nt);
            let m = b.obj(Obj::Mutex);
            let l = b.obj(Obj::RwLock);
            let v = match rng.below(6) {
                0 => vec![Op::Lock(m), Op::TryLock(m), Op::Unlock(m)],
                1 => vec![Op::Lock(m), Op::Lock(m)],
                2 => vec![Op::Read(l), Op::TryRead(l), Op::RUnlock(l)],
                3 => vec![Op::Read(l), Op::TryWrite(l), Op::RUnlock(l)],
                4 => vec![Op::Write(l), Op::TryRead(l), Op::WUnlock(l)],
                _ => vec![Op::Read(l), Op::Read(l)],
            };
            b.tasks[1] = v;
            b.tasks[0] = match rng.below(3) {
                0 => vec![Op::Write(l), Op::WUnlock(l)],
                1 => vec![Op::Lock(m), Op::Unlock(m)],
                _ => vec![Op::TryWrite(l), Op::WUnlock(l)],
            };
            b.finish(true)
        }
    }
}

/// Insert operations on a fresh shared atomic at random positions of the child tasks: a visible
/// operation before/after each primitive operation makes a missing choice point between the two
/// observable (the "third operation" of DESIGN §4 C02).
pub fn sprinkle(mut p: Prog, rng: &mut Rng) -> Prog {
    p.objs.push(Obj::Atomic(0));
    let a = p.objs.len() - 1;
    let nt = p.tasks.len();
    let mut added = 0;
    for t in 1..nt {
        if added >= 3 {
            break;
        }
        if rng.chance(2, 3) {
            let pos = rng.below(p.tasks[t].len() + 1);
            let op = match rng.below(3) {
                0 => Op::Store(a, 1 + t as i64),
                1 => Op::FetchAdd(a, 1),
                _ => Op::Load(a),
            };
            p.tasks[t].insert(pos, op);
            added += 1;
        }
    }
    p
}

/// Hand-written hostile shapes that are always run.
pub fn corpus() -> Vec<(&'static str, Prog)> {
    let mut v = vec![];
    // store/load race with a follow-up op after each (fused pairs become observable)
    {
        let mut b = B::new(3);
        let a = b.obj(Obj::Atomic(0));
        let c = b.obj(Obj::Atomic(0));
        b.tasks[1] = vec![Op::Store(a, 1), Op::Load(c)];
        b.tasks[2] = vec![Op::Store(c, 1), Op::Load(a)];
        v.push(("store-buffering", b.finish(true)));
    }
    // send then drop the only sender; receiver try_recv twice (DESIGN §6: drop fused with send)
    {
        let mut b = B::new(2);
        let ch = b.obj(Obj::Chan(None));
        b.senders.push((ch, vec![1]));
        b.receivers.push((ch, 0));
        b.tasks[1] = vec![Op::Send(ch, 1), Op::DropTx(ch)];
        b.tasks[0] = vec![Op::TryRecv(ch), Op::TryRecv(ch)];
        v.push(("send-drop-tryrecv2", b.finish(false)));
    }
    // lock cycle
    {
        let mut b = B::new(3);
        let m1 = b.obj(Obj::Mutex);
        let m2 = b.obj(Obj::Mutex);
        b.tasks[1] = vec![Op::Lock(m1), Op::Lock(m2), Op::Unlock(m2), Op::Unlock(m1)];
        b.tasks[2] = vec![Op::Lock(m2), Op::Lock(m1), Op::Unlock(m1), Op::Unlock(m2)];
        v.push(("lock-cycle", b.finish(true)));
    }
    // lost notification
    {
        let mut b = B::new(3);
        let m = b.obj(Obj::Mutex);
        let cv = b.obj(Obj::Condvar);
        b.tasks[1] = vec![Op::Lock(m), Op::Wait { cv, m }, Op::Unlock(m)];
        b.tasks[2] = vec![Op::NotifyOne(cv)];
        v.push(("lost-notify", b.finish(true)));
    }
    // the five-thread epoch scenario of condvar.rs: 4 waiters, two notify_one from one notifier
    {
        let mut b = B::new(6);
        let m = b.obj(Obj::Mutex);
        let cv = b.obj(Obj::Condvar);
        for t in 1..=4 {
            b.tasks[t] = vec![Op::Lock(m), Op::Wait { cv, m }, Op::Unlock(m)];
        }
        b.tasks[5] = vec![Op::NotifyOne(cv), Op::NotifyOne(cv)];
        v.push(("condvar-epochs", b.finish(false)));
    }
    // re-entrant try_read followed by a writer (DESIGN §6: try_read leak)
    {
        let mut b = B::new(2);
        let l = b.obj(Obj::RwLock);
        b.tasks[1] = vec![Op::Read(l), Op::TryRead(l), Op::RUnlock(l), Op::Write(l), Op::WUnlock(l)];
        v.push(("reentrant-try-read-then-write", b.finish(true)));
    }
    // park/unpark: token must not accumulate
    {
        let mut b = B::new(2);
        b.tasks[0] = vec![Op::Unpark(1), Op::Unpark(1)];
        b.tasks[1] = vec![Op::Park, Op::Park];
        v.push(("double-unpark-double-park", b.finish(false)));
    }
    // one unpark for two parks: an unpark that wakes a parked thread must not also leave a token behind
    for joined in [true, false] {
        let mut b = B::new(2);
        let a = b.obj(Obj::Atomic(0));
        b.tasks[0] = vec![Op::Unpark(1), Op::FetchAdd(a, 1)];
        b.tasks[1] = vec![Op::Park, Op::Park, Op::FetchAdd(a, 10)];
        v.push((if joined { "single-unpark-double-park-joined" } else { "single-unpark-double-park" }, b.finish(joined)));
    }
    // zero-permit requests: immediate unless (fair mode) somebody is queued ahead
    for fair in [true, false] {
        let mut b = B::new(3);
        let s = b.obj(Obj::Sem { permits: 1, fair });
        b.tasks[0] = vec![Op::Acquire(s, 0), Op::TryAcquire(s, 0), Op::Release(s, 0), Op::Avail(s)];
        b.tasks[1] = vec![Op::Acquire(s, 2), Op::Release(s, 2)];
        b.tasks[2] = vec![Op::Acquire(s, 0), Op::Release(s, 1), Op::TryAcquire(s, 0)];
        v.push((if fair { "zero-permit-requests-fair" } else { "zero-permit-requests-unfair" }, b.finish(true)));
    }
    // a pending unpark token must survive whatever other blocking the target does before it parks
    {
        // ... a mutex hand-off
        let m = 0usize;
        v.push((
            "unpark-then-mutex-handoff-then-park",
            Prog { objs: vec![Obj::Mutex], tasks: vec![vec![Op::Lock(m), Op::Spawn(1), Op::Unpark(1), Op::Unlock(m), Op::Join(1)], vec![Op::Lock(m), Op::Unlock(m), Op::Park]], senders: vec![], receivers: vec![] },
        ));
        // ... a barrier
        v.push((
            "unpark-then-barrier-then-park",
            Prog { objs: vec![Obj::Barrier(2)], tasks: vec![vec![Op::Spawn(1), Op::Unpark(1), Op::BarrierWait(0), Op::Join(1)], vec![Op::BarrierWait(0), Op::Park]], senders: vec![], receivers: vec![] },
        ));
        // ... a channel receive
        v.push((
            "unpark-then-recv-then-park",
            Prog { objs: vec![Obj::Chan(None)], tasks: vec![vec![Op::Spawn(1), Op::Unpark(1), Op::Send(0, 1), Op::Join(1)], vec![Op::Recv(0), Op::Park]], senders: vec![(0, vec![0])], receivers: vec![(0, 1)] },
        ));
        // ... a condvar wait (the notification may also come too early: the model knows)
        v.push((
            "unpark-then-condvar-then-park",
            Prog {
                objs: vec![Obj::Mutex, Obj::Condvar],
                tasks: vec![
                    vec![Op::Spawn(1), Op::Unpark(1), Op::Lock(0), Op::NotifyAll(1), Op::Unlock(0), Op::Join(1)],
                    vec![Op::Lock(0), Op::Wait { cv: 1, m: 0 }, Op::Unlock(0), Op::Park],
                ],
                senders: vec![],
                receivers: vec![],
            },
        ));
        // ... a semaphore acquire
        v.push((
            "unpark-then-acquire-then-park",
            Prog { objs: vec![Obj::Sem { permits: 0, fair: true }], tasks: vec![vec![Op::Spawn(1), Op::Unpark(1), Op::Release(0, 1), Op::Join(1)], vec![Op::Acquire(0, 1), Op::Park]], senders: vec![], receivers: vec![] },
        ));
    }
    // two unparks for a thread that parks twice: in std both may collapse into one token (the second
    // park then blocks for ever); Shuttle hands the first wake over directly
    {
        let mut b = B::new(2);
        let a = b.obj(Obj::Atomic(0));
        b.tasks[0] = vec![Op::Park, Op::Park];
        b.tasks[1] = vec![Op::Unpark(0), Op::Unpark(0), Op::FetchAdd(a, 1)];
        v.push(("double-unpark-of-parked-main", b.finish(true)));
    }
    // reused barrier with more tasks than n
    {
        let mut b = B::new(4);
        let bar = b.obj(Obj::Barrier(2));
        for t in 0..4 {
            b.tasks[t] = vec![Op::BarrierWait(bar)];
        }
        v.push(("barrier-reuse", b.finish(true)));
    }
    // fair semaphore: big request at the head must not be overtaken
    {
        let mut b = B::new(4);
        let s = b.obj(Obj::Sem { permits: 1, fair: true });
        b.tasks[1] = vec![Op::Acquire(s, 2), Op::Release(s, 2)];
        b.tasks[2] = vec![Op::Acquire(s, 1), Op::Release(s, 1)];
        b.tasks[3] = vec![Op::Release(s, 1)];
        v.push(("fair-sem-head-of-line", b.finish(true)));
    }
    // rendezvous hand-off
    {
        let mut b = B::new(3);
        let ch = b.obj(Obj::Chan(Some(0)));
        b.senders.push((ch, vec![1]));
        b.receivers.push((ch, 2));
        b.tasks[1] = vec![Op::Send(ch, 1), Op::TrySend(ch, 2), Op::DropTx(ch)];
        b.tasks[2] = vec![Op::Recv(ch), Op::TryRecv(ch), Op::Recv(ch)];
        v.push(("rendezvous", b.finish(true)));
    }
    // bounded: two senders blocked behind capacity 1
    {
        let mut b = B::new(4);
        let ch = b.obj(Obj::Chan(Some(1)));
        b.senders.push((ch, vec![1, 2]));
        b.receivers.push((ch, 3));
        b.tasks[1] = vec![Op::Send(ch, 1), Op::Send(ch, 2)];
        b.tasks[2] = vec![Op::Send(ch, 3)];
        b.tasks[3] = vec![Op::Recv(ch), Op::Recv(ch), Op::Recv(ch)];
        v.push(("bounded-two-blocked-senders", b.finish(true)));
    }
    // an observable operation right before a notification: the waiter may see it and still register in time
    for all in [false, true] {
        let mut b = B::new(3);
        let m = b.obj(Obj::Mutex);
        let cv = b.obj(Obj::Condvar);
        let a = b.obj(Obj::Atomic(0));
        b.tasks[1] = vec![Op::Lock(m), Op::Load(a), Op::Wait { cv, m }, Op::Unlock(m)];
        b.tasks[2] = vec![Op::Store(a, 1), if all { Op::NotifyAll(cv) } else { Op::NotifyOne(cv) }];
        v.push((if all { "store-then-notify-all" } else { "store-then-notify-one" }, b.finish(true)));
    }
    // the same for unpark and for a semaphore release
    {
        let mut b = B::new(3);
        let a = b.obj(Obj::Atomic(0));
        b.tasks[1] = vec![Op::Load(a), Op::Park];
        b.tasks[2] = vec![Op::Store(a, 1), Op::Unpark(1)];
        v.push(("store-then-unpark", b.finish(true)));
    }
    {
        let mut b = B::new(3);
        let s = b.obj(Obj::Sem { permits: 0, fair: true });
        let a = b.obj(Obj::Atomic(0));
        b.tasks[1] = vec![Op::Load(a), Op::TryAcquire(s, 1)];
        b.tasks[2] = vec![Op::Store(a, 1), Op::Release(s, 1)];
        v.push(("store-then-release", b.finish(true)));
    }
    // racing call_once with observers
    {
        let mut b = B::new(3);
        let o = b.obj(Obj::Once);
        let a = b.obj(Obj::Atomic(0));
        b.tasks[1] = vec![Op::CallOnce { once: o, atom: Some(a) }, Op::Load(a)];
        b.tasks[2] = vec![Op::CallOnce { once: o, atom: Some(a) }, Op::IsCompleted(o)];
        v.push(("racing-call-once", b.finish(true)));
    }
    v
}
