pub mod atomics;
pub mod c01;
pub mod c07;
pub mod c08;
pub mod c09;
pub mod c10;
pub mod c11;
pub mod c12;
pub mod c13;
pub mod c14;
pub mod c15;
pub mod c16;
pub mod c17;
pub mod c18;
pub mod families;
pub mod observers;
pub mod poison;
pub mod sanit;

use crate::util::Report;

pub fn run(id: &str, tier: &str, seed: u64) -> i32 {
    let mut r = Report::new(id, tier, seed);
    match id {
        "C01" => c01::run(&mut r),
        "C02" => families::c02(&mut r),
        "C03" => families::c03(&mut r),
        "C04" => families::c04(&mut r),
        "C05" => families::c05(&mut r),
        "C06" => families::c06(&mut r),
        "C07" => c07::run(&mut r),
        "C08" => c08::run(&mut r),
        "C09" => c09::run(&mut r),
        "C10" => c10::run(&mut r),
        "C11" => c11::run(&mut r),
        "C12" => c12::run(&mut r),
        "C13" => c13::run(&mut r),
        "C14" => c14::run(&mut r),
        "C15" => c15::run(&mut r),
        "C16" => c16::run(&mut r),
        "C17" => c17::run(&mut r),
        "C18" => c18::run(&mut r),
        _ => {
            println!("unknown property id {id}");
            return 2;
        }
    }
    // sanitizer slice for the properties that lean on `unsafe` code
    let n = if r.quick() { 40 } else { 600 };
    match id {
        "C07" => sanit::attach(&mut r, "threads", n),
        "C12" => sanit::attach(&mut r, "failing", n),
        "C14" => sanit::attach(&mut r, "abandon", n),
        "C16" => sanit::attach(&mut r, "codec", n),
        "C17" | "C18" => sanit::attach(&mut r, "async", n),
        _ => {}
    }
    if !r.quick() {
        match id {
            "C07" => sanit::attach_asan(&mut r, "vcore", "verif", "threads", 4000),
            "C12" => sanit::attach_asan(&mut r, "vcore", "verif", "failing", 2000),
            "C14" => sanit::attach_asan(&mut r, "vcore", "verif", "abandon", 4000),
            "C16" => sanit::attach_asan(&mut r, "vcore", "verif", "codec", 4000),
            "C17" | "C18" => sanit::attach_asan(&mut r, "vcore", "verif", "async", 2000),
            _ => {}
        }
    }
    r.finish()
}

/// micro-benchmark of failing executions (development aid)
pub fn bench() {
    use crate::oracle::{explore_prog, Mode};
    let (_, p) = crate::gen::corpus().into_iter().find(|(n, _)| *n == "condvar-epochs").unwrap();
    crate::rec::install_hook_observer();
    let t = std::time::Instant::now();
    let ex = explore_prog(&p, Mode::Enum(std::env::var("VERIF_BENCH_CAP").ok().and_then(|s| s.parse().ok()).unwrap_or(20_000)), false);
    let fails = ex.observed.iter().filter(|(o, _)| !matches!(o.term, crate::model::MTerm::Pass)).count();
    println!("condvar-epochs: {} execs in {:.2}s, complete={}, failing outcome kinds={}", ex.executions, t.elapsed().as_secs_f64(), ex.complete, fails);
}
