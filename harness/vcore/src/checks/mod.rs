pub mod families;

use crate::util::Report;

pub fn run(id: &str, tier: &str, seed: u64) -> i32 {
    let mut r = Report::new(id, tier, seed);
    match id {
        "C02" => families::c02(&mut r),
        "C03" => families::c03(&mut r),
        "C04" => families::c04(&mut r),
        "C05" => families::c05(&mut r),
        "C06" => families::c06(&mut r),
        _ => {
            println!("unknown property id {id}");
            return 2;
        }
    }
    r.finish()
}

/// micro-benchmark of failing executions (development aid)
pub fn bench() {
    use crate::oracle::{explore_prog, Mode};
    let (_, p) = crate::gen::corpus().into_iter().find(|(n, _)| *n == "condvar-epochs").unwrap();
    crate::rec::install_hook_observer();
    let t = std::time::Instant::now();
    let ex = explore_prog(&p, Mode::Enum(20_000), false);
    let fails = ex.observed.iter().filter(|(o, _)| !matches!(o.term, crate::model::MTerm::Pass)).count();
    println!("lost-notify: {} execs in {:.2}s, complete={}, failing outcome kinds={}", ex.executions, t.elapsed().as_secs_f64(), ex.complete, fails);
}
