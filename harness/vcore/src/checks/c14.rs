//! C14: executions are isolated: nothing leaks from one iteration to the next, whatever kind of
//! execution came before (completed, stopped by the scheduler, cut by a step bound).
use crate::oracle::{self, Acc};
use crate::rec::{self, body_event, Ev, ExecLog, Term};
use crate::util::{Report, Rng};
use serde_json::json;
use shuttle::scheduler::*;
use shuttle::sync::{Arc, Condvar, Mutex, Once};
use shuttle_engine::scheduler::serialization::serialize_schedule;
use std::cell::{Cell, RefCell};
use std::rc::Rc;

use super::c01::{first_diff, make_sched, sched_name, signature};

thread_local! {
    /// live instances of instrumented values on this OS thread (std TLS, invisible to Shuttle)
    static LIVE: Cell<i64> = const { Cell::new(0) };
    static CREATED: Cell<u64> = const { Cell::new(0) };
}

pub struct Tracked(pub u32);
impl Tracked {
    pub fn new(kind: u32) -> Self {
        LIVE.with(|l| l.set(l.get() + 1));
        CREATED.with(|c| c.set(c.get() + 1));
        body_event(T_NEW, kind as i64, 0);
        Tracked(kind)
    }
}
impl Drop for Tracked {
    fn drop(&mut self) {
        LIVE.with(|l| l.set(l.get() - 1));
        // a destructor that writes labels (an RAII "scoped label" guard does this): when it runs during
        // the teardown of an execution, what it writes must not be visible to the next execution
        if DROP_LABELS.with(|d| d.get()) {
            for t in 0..3usize {
                shuttle::current::set_label_for_task(TaskId::from(t), DropLabel(self.0));
            }
        }
    }
}

#[derive(Clone, Debug)]
struct DropLabel(#[allow(dead_code)] u32);

thread_local! {
    static DROP_LABELS: Cell<bool> = const { Cell::new(false) };
}

const T_ENTRY: u32 = 2000;
const T_NEW: u32 = 2001;
const T_STEP: u32 = 2002;
const T_ONCE: u32 = 2003;
const T_EXIT: u32 = 2004;

shuttle::lazy_static! {
    static ref LZ: Tracked = Tracked::new(1);
    static ref LZ2: std::sync::atomic::AtomicUsize = { body_event(T_NEW, 11, 0); std::sync::atomic::AtomicUsize::new(0) };
}
shuttle::thread_local! {
    static TL: Tracked = Tracked::new(2);
    static TLC: Cell<u32> = Cell::new(0);
}
static ONCE: Once = Once::new();

#[derive(Clone, Debug)]
struct MyLabel(#[allow(dead_code)] u32);

#[derive(Debug)]
struct MyTag(#[allow(dead_code)] u32);
#[allow(deprecated)]
impl shuttle::current::Taggable for MyTag {}

/// The body: observes the initial world at entry, then dirties everything it can.
#[allow(deprecated)]
pub fn body(variant: usize) {
    use shuttle::current;
    let me: usize = current::me().into();
    let clock = current::clock();
    let clock_sum: u32 = clock.iter().sum();
    let live = LIVE.with(|l| l.get());
    body_event(T_ENTRY, 0, me as i64);
    body_event(T_ENTRY, 1, current::context_switches() as i64);
    body_event(T_ENTRY, 2, clock_sum as i64);
    body_event(T_ENTRY, 3, clock.len() as i64);
    body_event(T_ENTRY, 4, live);
    body_event(T_ENTRY, 5, ONCE.is_completed() as i64);
    body_event(T_ENTRY, 6, current::get_label_for_task::<MyLabel>(current::me()).is_some() as i64);
    body_event(T_ENTRY, 7, current::get_tag_for_current_task().is_some() as i64);
    body_event(T_ENTRY, 8, TLC.with(|c| c.get()) as i64);
    body_event(T_ENTRY, 9, LZ2.load(std::sync::atomic::Ordering::SeqCst) as i64);
    let name = current::get_name_for_task(current::me()).map(|n| format!("{n:?}")).unwrap_or_default();
    body_event(T_ENTRY, 10, (name == "main-thread") as i64);
    for t in 0..3usize {
        body_event(T_ENTRY, 40 + t as i64, current::get_label_for_task::<DropLabel>(TaskId::from(t)).is_some() as i64);
    }
    // from here on, destructors of instrumented values write labels
    DROP_LABELS.with(|d| d.set(variant % 2 == 0));
    for other in 1..4usize {
        // no residue for task ids of a previous execution
        body_event(T_ENTRY, 20 + other as u32 as i64, current::get_label_for_task::<MyLabel>(TaskId::from(other)).is_some() as i64);
        body_event(T_ENTRY, 30 + other as u32 as i64, current::get_tag_for_task(TaskId::from(other)).is_some() as i64);
    }

    // dirty the world
    current::set_label_for_task(current::me(), MyLabel(7));
    current::set_tag_for_current_task(std::sync::Arc::new(MyTag(3)));
    TLC.with(|c| c.set(5));
    LZ2.store(9, std::sync::atomic::Ordering::SeqCst);
    let m = Arc::new(Mutex::new(Tracked::new(3)));
    let cv = Arc::new(Condvar::new());
    let flag = Arc::new(Mutex::new(false));
    let mut hs = vec![];
    for i in 0..2u32 {
        let m = m.clone();
        let cv = cv.clone();
        let flag = flag.clone();
        hs.push(shuttle::thread::spawn(move || {
            let on_stack = Tracked::new(4 + i);
            current::set_label_for_task(current::me(), MyLabel(100 + i));
            current::set_name_for_task(current::me(), format!("worker-{i}"));
            TL.with(|t| body_event(T_STEP, t.0 as i64, 0));
            ONCE.call_once(|| body_event(T_ONCE, i as i64, 0));
            let g = m.lock().unwrap();
            shuttle::thread::yield_now();
            body_event(T_STEP, 10 + g.0 as i64, LZ.0 as i64);
            drop(g);
            if variant % 2 == 1 {
                if i == 0 {
                    let mut f = flag.lock().unwrap();
                    while !*f {
                        f = cv.wait(f).unwrap();
                    }
                } else {
                    *flag.lock().unwrap() = true;
                    cv.notify_all();
                }
            }
            let r = shuttle::rand::Rng::gen::<u64>(&mut shuttle::rand::thread_rng()) % 100;
            body_event(T_STEP, 20, r as i64);
            drop(on_stack);
        }));
    }
    if variant % 4 >= 2 {
        // a detached async task that is still pending when main finishes
        let m2 = m.clone();
        let _ = shuttle::future::spawn(async move {
            let _t = Tracked::new(8);
            loop {
                shuttle::future::yield_now().await;
                let _g = m2.lock().unwrap();
            }
        });
    }
    for h in hs {
        h.join().unwrap();
    }
    body_event(T_EXIT, LIVE.with(|l| l.get()), 0);
}

/// Stops some executions early: execution i (i % 3 == 1) gets None at decision `(i*7) % 23`.
struct StopSome<S: Scheduler> {
    inner: S,
    exec: usize,
    dec: usize,
}
impl<S: Scheduler> Scheduler for StopSome<S> {
    fn new_execution(&mut self) -> Option<Schedule> {
        self.exec += 1;
        self.dec = 0;
        self.inner.new_execution()
    }
    fn next_task(&mut self, r: &[&Task], c: Option<TaskId>, y: bool) -> Option<TaskId> {
        self.dec += 1;
        if self.exec % 3 == 1 && self.dec == 1 + (self.exec * 7) % 23 {
            return None;
        }
        self.inner.next_task(r, c, y)
    }
    fn next_u64(&mut self) -> u64 {
        self.inner.next_u64()
    }
}

fn entry_obs(log: &ExecLog) -> Vec<(i64, i64)> {
    log.events.iter().filter_map(|e| if let Ev::Body { tag: T_ENTRY, a, b, .. } = e { Some((*a, *b)) } else { None }).collect()
}

#[derive(Clone, Copy, Debug)]
enum Pred {
    Completed,
    StoppedByScheduler,
    ContinueAfter(usize),
}

fn run_isolation(variant: usize, k: usize, seed: u64, iters: usize, pred: Pred, acc: &mut Acc) {
    let wit = |extra: serde_json::Value| json!({"body_variant": variant, "scheduler": sched_name(k), "sched_seed": seed, "predecessors": format!("{pred:?}"), "detail": extra});
    let mut cfg = rec::base_config();
    cfg.max_steps = match pred {
        Pred::ContinueAfter(n) => shuttle::MaxSteps::ContinueAfter(n),
        _ => shuttle::MaxSteps::FailAfter(5_000),
    };
    let collected: Rc<RefCell<Vec<(rec::Finished, i64)>>> = Rc::new(RefCell::new(vec![]));
    let c2 = collected.clone();
    let live_before = LIVE.with(|l| l.get());
    let on_exec = move |f: rec::Finished| {
        let live = LIVE.with(|l| l.get());
        c2.borrow_mut().push((f, live));
    };
    let rr = match pred {
        Pred::StoppedByScheduler => rec::run_streamed(StopSome { inner: make_sched(k, seed, iters), exec: 0, dec: 0 }, cfg.clone(), move || body(variant), on_exec),
        _ => rec::run_streamed(make_sched(k, seed, iters), cfg.clone(), move || body(variant), on_exec),
    };
    let execs = std::mem::take(&mut *collected.borrow_mut());
    acc.add("runs", 1);
    if let Term::Panic(m) = &rr.term {
        if m.contains("did not exercise any concurrency") {
            // PCT refuses bodies whose first (here: cut) execution had no real choice
            acc.add("runs_skipped_pct_without_concurrency", 1);
            return;
        }
    }
    if rr.term != Term::Pass {
        acc.violation("isolation-body-failed", format!("the isolation body failed: {:?}", rr.term), wit(json!(null)));
        return;
    }
    let live_after = LIVE.with(|l| l.get());
    if live_after != live_before {
        acc.violation("values-outlive-run", format!("{} instrumented values are still alive after Runner::run returned", live_after - live_before), wit(json!(null)));
        LIVE.with(|l| l.set(live_before));
    }
    let canonical: Option<Vec<(i64, i64)>> = execs.first().map(|e| entry_obs(&e.0.log));
    for (i, (f, live_at_boundary)) in execs.iter().enumerate() {
        acc.evaluations += 1;
        if rec::nontrivial(&f.log) {
            acc.distinct.insert(rec::hash_choices(&f.log));
        }
        for (sig, what) in rec::contract_check(&f.log, Some(&f.runtime_schedule)) {
            acc.violation(&format!("C08:{sig}"), what, wit(json!({"iteration": i})));
        }
        // every value created by the execution is gone at its boundary
        if *live_at_boundary != live_before {
            acc.violation(
                "values-survive-execution",
                format!("{} instrumented values created by iteration {i} were still alive when the next iteration started / the run ended", live_at_boundary - live_before),
                wit(json!({"iteration": i})),
            );
        }
        let obs = entry_obs(&f.log);
        let expect: Vec<(i64, i64)> = vec![(0, 0), (4, live_before), (5, 0), (6, 0), (7, 0), (8, 0), (9, 0), (10, 1), (21, 0), (22, 0), (23, 0), (31, 0), (32, 0), (33, 0), (40, 0), (41, 0), (42, 0)];
        for (key, want) in &expect {
            match obs.iter().find(|o| o.0 == *key) {
                Some((_, got)) if got == want => {}
                Some((_, got)) => {
                    let what = match key {
                        0 => "main task id",
                        4 => "live values of the previous iteration",
                        5 => "Once already complete",
                        6 | 21 | 22 | 23 => "label present before being set",
                        40 | 41 | 42 => "label written by a destructor of the previous execution",
                        7 | 31 | 32 | 33 => "tag present before being set",
                        8 => "thread-local already initialised",
                        9 => "lazy static already initialised",
                        10 => "main task name",
                        _ => "?",
                    };
                    acc.violation(&format!("dirty-initial-world:{what}"), format!("iteration {i}: {what}: observed {got}, a fresh execution has {want}"), wit(json!({"iteration": i})));
                }
                None => {
                    let cut_short = f.log.events.iter().any(|e| matches!(e, Ev::Decision(d) if d.choice.is_none())) || matches!(pred, Pred::ContinueAfter(_));
                    if !obs.is_empty() && !cut_short {
                        acc.violation("entry-observation-missing", format!("iteration {i}: entry observation {key} missing"), wit(json!(null)));
                    }
                }
            }
        }
        // counters/clock at entry equal those of the first iteration
        if let Some(c) = &canonical {
            for key in [1i64, 2, 3] {
                let a = c.iter().find(|o| o.0 == key);
                let b = obs.iter().find(|o| o.0 == key);
                if !obs.is_empty() && a != b {
                    acc.violation(
                        "dirty-initial-world:counters",
                        format!("iteration {i}: {} at body entry is {:?}, in the first iteration it was {:?}", ["", "context_switches()", "clock sum", "clock length"][key as usize], b, a),
                        wit(json!({"iteration": i})),
                    );
                }
            }
        }
        // hook: nothing left behind by cleanup
        for e in &f.log.events {
            if let Ev::End { labels, tags, storage, .. } = e {
                acc.add("cleanup_snapshots", 1);
                if *labels != 0 || *tags != 0 || *storage != 0 {
                    acc.violation("cleanup-residue", format!("after cleanup of iteration {i}: {labels} label maps, {tags} tags, {storage} storage slots left"), wit(json!({"iteration": i})));
                }
            }
        }
        // initialisers ran at most once per execution (lazy static) / once per thread (thread-local)
        let lz = f.log.events.iter().filter(|e| matches!(e, Ev::Body { tag: T_NEW, a: 1, .. })).count();
        let once = f.log.events.iter().filter(|e| matches!(e, Ev::Body { tag: T_ONCE, .. })).count();
        if lz > 1 || once > 1 {
            acc.violation("initializer-ran-twice", format!("iteration {i}: lazy_static initialiser ran {lz} times, Once closure {once} times"), wit(json!({"iteration": i})));
        }
        // in-context vs stand-alone replay (only for executions that were not cut short)
        let cut = f.log.events.iter().any(|e| matches!(e, Ev::Decision(d) if d.choice.is_none())) || matches!(pred, Pred::ContinueAfter(_));
        if !cut && (i < 3 || i % 5 == 0) {
            let text = serialize_schedule(&f.runtime_schedule);
            let rep: Rc<RefCell<Vec<ExecLog>>> = Rc::new(RefCell::new(vec![]));
            let r2 = rep.clone();
            let mut c = rec::base_config();
            c.max_steps = shuttle::MaxSteps::FailAfter(5_000);
            let rr = rec::run_streamed(ReplayScheduler::new_from_encoded(&text), c, move || body(variant), move |f| r2.borrow_mut().push(f.log));
            acc.add("standalone_replays", 1);
            let reps = rep.borrow();
            if rr.term != Term::Pass || reps.len() != 1 {
                acc.violation("standalone-replay-failed", format!("iteration {i} replayed alone ended {:?}", rr.term), wit(json!({"iteration": i, "schedule": text})));
            } else if let Some((j, d)) = first_diff(&signature(&f.log), &signature(&reps[0])) {
                acc.violation(
                    "in-context-differs-from-alone",
                    format!("iteration {i} behaves differently inside the run than replayed alone: event {j}: {d}"),
                    wit(json!({"iteration": i, "schedule": text})),
                );
            }
        }
    }
    if acc.samples.len() < 3 {
        if let Some((f, _)) = execs.get(1) {
            acc.samples.push(json!({"body_variant": variant, "scheduler": sched_name(k), "predecessors": format!("{pred:?}"), "iterations": execs.len(), "entry_observations_of_iteration_1": entry_obs(&f.log), "choices": rec::choice_seq(&f.log)}));
        }
    }
}

pub fn run(r: &mut Report) {
    let mut rng = Rng::new(r.seed ^ 0xC14);
    let iters = if r.quick() { 200 } else { 1000 };
    let mut items: Vec<(usize, usize, u64, Pred)> = vec![];
    for variant in 0..4 {
        for k in [0usize, 2, 4, 5, 6, 7] {
            items.push((variant, k, rng.next(), Pred::Completed));
            items.push((variant, k, rng.next(), Pred::StoppedByScheduler));
            for n in [3usize, 9, 17, 30] {
                if r.quick() && (n + k) % 2 == 0 {
                    continue;
                }
                items.push((variant, k, rng.next(), Pred::ContinueAfter(n)));
            }
        }
    }
    let accs = oracle::parallel(items.len(), oracle::workers(), |i, acc| {
        let (variant, k, seed, pred) = items[i];
        run_isolation(variant, k, seed, iters, pred, acc);
    });
    for a in accs {
        a.merge_into(r);
    }
    r.rule = "a body that observes the initial world at entry (task id, context_switches, clock, labels/tags/names of ids 0..3, Once state, lazy_static and thread_local state, live instrumented values) and then dirties all of it (labels, tags, names, thread-locals, lazy statics, Once, instrumented values on stacks / in mutexes / in a detached pending future) is run for many iterations under random, PCT, URW, DFS and round-robin, with predecessors that completed, were stopped by the scheduler at varying decisions, or were cut by ContinueAfter(n); per iteration: entry observations equal a fresh world, no instrumented value survives the execution boundary, cleanup leaves no labels/tags/storage (hook), initialisers run once, and iteration k equals the stand-alone replay of its own recorded schedule. evaluations = executions; distinct_nontrivial = distinct choice sequences with a real choice".into();
    r.assumptions = vec!["instrumented values count live instances in a std thread-local of the OS thread running the Runner".into()];
}
