//! C01: a recorded schedule, replayed in its printed string form, reproduces the identical
//! execution (decisions, offered sets, draws, operation results, termination); the
//! uncontrolled-nondeterminism checker accepts bodies whose only nondeterminism is Shuttle's.
use crate::gen::{self, Family};
use crate::oracle::{self, Acc};
use crate::prog::*;
use crate::rec::{self, Ev, ExecLog, Finished, Term};
use crate::util::{Report, Rng};
use serde_json::json;
use shuttle::scheduler::*;
use shuttle_engine::scheduler::serialization::serialize_schedule;
use std::cell::RefCell;
use std::rc::Rc;
use std::sync::Arc;

/// Programs for C01 get shuttle::rand draws sprinkled in.
pub fn with_rand(mut p: Prog, rng: &mut Rng) -> Prog {
    for t in 0..p.tasks.len() {
        if rng.chance(1, 2) {
            let n = p.tasks[t].len();
            // never before a Spawn in main (keeps Spawn/Join structure intact, position is free)
            let pos = rng.below(n + 1);
            p.tasks[t].insert(pos, Op::Rand);
            if rng.chance(1, 3) {
                p.tasks[t].insert(pos, Op::Rand);
            }
        }
    }
    // re-point Join/Spawn indices are task ids, unaffected by insertion
    p
}

#[derive(Clone, Debug, PartialEq, Eq)]
pub enum Sig {
    D { offered: Vec<usize>, current: Option<usize>, yielding: bool, choice: Option<usize> },
    R(u64),
    B { task: usize, tag: u32, a: i64 },
}

pub fn signature(log: &ExecLog) -> Vec<Sig> {
    log.events
        .iter()
        .filter_map(|e| match e {
            Ev::Decision(d) => Some(Sig::D {
                offered: d.offered.iter().map(|x| x.0).collect(),
                current: d.current,
                yielding: d.yielding,
                choice: d.choice,
            }),
            Ev::Draw(v) => Some(Sig::R(*v)),
            Ev::Body { task, tag, a, .. } => Some(Sig::B { task: *task, tag: *tag, a: *a }),
            _ => None,
        })
        .collect()
}

pub fn first_diff(a: &[Sig], b: &[Sig]) -> Option<(usize, String)> {
    for i in 0..a.len().max(b.len()) {
        if a.get(i) != b.get(i) {
            return Some((i, format!("original: {:?} / replay: {:?}", a.get(i), b.get(i))));
        }
    }
    None
}

pub enum SchedKind {
    Random,
    Pct(usize),
    Urw,
    Dfs,
    RoundRobin,
}

pub fn sched_name(k: usize) -> &'static str {
    ["random", "pct1", "pct2", "pct3", "pct5", "urw", "dfs", "roundrobin"][k % 8]
}

pub fn make_sched(k: usize, seed: u64, iters: usize) -> Box<dyn Scheduler + Send> {
    match k % 8 {
        0 => Box::new(RandomScheduler::new_from_seed(seed, iters)),
        1 => Box::new(PctScheduler::new_from_seed(seed, 1, iters)),
        2 => Box::new(PctScheduler::new_from_seed(seed, 2, iters)),
        3 => Box::new(PctScheduler::new_from_seed(seed, 3, iters)),
        4 => Box::new(PctScheduler::new_from_seed(seed, 5, iters)),
        5 => Box::new(UrwRandomScheduler::new_from_seed(seed, iters)),
        6 => Box::new(DfsScheduler::new(Some(iters), true)),
        _ => Box::new(RoundRobinScheduler::new(iters.min(2))),
    }
}

/// Run `prog` under scheduler kind `k`; every execution (passing or failing) is replayed from the
/// string form of the runtime's recorded schedule and compared.
pub fn record_and_replay(prog: &Prog, k: usize, seed: u64, iters: usize, acc: &mut Acc, label: &str) {
    let slot: Arc<std::sync::Mutex<Option<Arc<World>>>> = Arc::new(std::sync::Mutex::new(None));
    let p2 = prog.clone();
    let s2 = slot.clone();
    let body = move || run_prog(&p2, false, &s2);
    let mut cfg = rec::base_config();
    cfg.max_steps = shuttle::MaxSteps::FailAfter(5_000);

    let collected: Rc<RefCell<Vec<(Finished, bool)>>> = Rc::new(RefCell::new(vec![]));
    let mut left = iters;
    let mut round = 0u64;
    let mut terms: Vec<Term> = vec![];
    while left > 0 && round < 6 {
        let c2 = collected.clone();
        let sl = slot.clone();
        let sched = make_sched(k, seed.wrapping_add(round), left);
        let rr = rec::run_streamed(sched, cfg.clone(), body.clone(), move |f| {
            if let Some(w) = sl.lock().unwrap().take() {
                w.forget_endpoints();
            }
            c2.borrow_mut().push((f, std::thread::panicking()));
        });
        let n = collected.borrow().len();
        terms.resize(n, Term::Pass);
        if rr.term != Term::Pass && n > 0 {
            terms[n - 1] = rr.term.clone();
        }
        left = iters.saturating_sub(n);
        round += 1;
        if rr.term == Term::Pass {
            break;
        }
    }
    let execs = std::mem::take(&mut *collected.borrow_mut());
    let wit = |extra: serde_json::Value| json!({"family": label, "scheduler": sched_name(k), "sched_seed": seed, "program": prog.describe(), "detail": extra});
    for (idx, (f, _)) in execs.iter().enumerate() {
        acc.evaluations += 1;
        acc.add("decisions_checked", rec::choice_seq(&f.log).len() as u64);
        if rec::nontrivial(&f.log) {
            acc.distinct.insert(rec::hash_choices(&f.log));
        }
        for (sig, what) in rec::contract_check(&f.log, Some(&f.runtime_schedule)) {
            acc.violation(&format!("C08:{sig}"), what, wit(json!({"execution": idx})));
        }
        // replay from the printed form
        let text = serialize_schedule(&f.runtime_schedule);
        let orig = signature(&f.log);
        let replayed: Rc<RefCell<Vec<Finished>>> = Rc::new(RefCell::new(vec![]));
        let r2 = replayed.clone();
        let sl = slot.clone();
        let t2 = text.clone();
        let built = std::panic::catch_unwind(move || ReplayScheduler::new_from_encoded(&t2));
        let Ok(rs) = built else {
            acc.violation("replay-rejects-own-schedule", "ReplayScheduler::new_from_encoded rejected a schedule the runtime recorded".into(), wit(json!({"schedule": text})));
            continue;
        };
        let rr = rec::run_streamed(rs, cfg.clone(), body.clone(), move |f| {
            if let Some(w) = sl.lock().unwrap().take() {
                w.forget_endpoints();
            }
            r2.borrow_mut().push(f);
        });
        acc.add("replays", 1);
        let reps = std::mem::take(&mut *replayed.borrow_mut());
        if reps.len() != 1 {
            acc.violation("replay-execution-count", format!("replay ran {} executions instead of 1", reps.len()), wit(json!({"schedule": text})));
            continue;
        }
        let rep = signature(&reps[0].log);
        if let Some((i, d)) = first_diff(&orig, &rep) {
            let kind = match (orig.get(i), rep.get(i)) {
                (Some(Sig::R(_)), Some(Sig::R(_))) => "draw-value",
                (Some(Sig::B { .. }), Some(Sig::B { .. })) => "operation-result",
                (Some(Sig::D { choice: a, .. }), Some(Sig::D { choice: b, .. })) if a != b => "choice",
                (Some(Sig::D { .. }), Some(Sig::D { .. })) => "offered-set",
                _ => "shape",
            };
            acc.violation(
                &format!("replay-differs:{kind}"),
                format!("replay of the recorded schedule diverges at event {i}: {d}"),
                wit(json!({"schedule": text, "execution": idx, "original_term": format!("{:?}", terms[idx])})),
            );
        }
        // same ending
        let t_orig = &terms[idx];
        let same_end = match (t_orig, &rr.term) {
            (Term::Pass, Term::Pass) => true,
            (Term::Deadlock(a), Term::Deadlock(b)) => a == b,
            (Term::StepBound, Term::StepBound) => true,
            (Term::Panic(a), Term::Panic(b)) => a == b,
            _ => false,
        };
        if !same_end {
            acc.violation(
                "replay-ends-differently",
                format!("original ended {:?}, replay ended {:?}", t_orig, rr.term),
                wit(json!({"schedule": text, "execution": idx})),
            );
        }
        if reps[0].runtime_schedule != f.runtime_schedule {
            acc.violation("replay-records-different-schedule", "the schedule recorded during replay differs from the replayed one".into(), wit(json!({"schedule": text})));
        }
        if idx == 0 && acc.samples.len() < 3 {
            acc.samples.push(json!({"family": label, "scheduler": sched_name(k), "program": prog.describe(), "schedule": text, "events": orig.len(), "term": format!("{:?}", t_orig)}));
        }
    }
    // the nondeterminism checker must accept this body (it replays each schedule once itself)
    if matches!(terms.last(), None | Some(Term::Pass)) && terms.iter().all(|t| *t == Term::Pass) {
        let sl = slot.clone();
        let sched = UncontrolledNondeterminismCheckScheduler::new(RandomScheduler::new_from_seed(seed, iters.min(20)));
        let rr = rec::run_streamed(sched, cfg.clone(), body.clone(), move |_f| {
            if let Some(w) = sl.lock().unwrap().take() {
                w.forget_endpoints();
            }
        });
        acc.add("nondeterminism_checker_runs", 1);
        if let Term::Panic(m) = &rr.term {
            if m.contains("possible nondeterminism") {
                acc.violation("nondeterminism-checker-rejects", format!("the checker rejected a deterministic body: {m}"), wit(json!(null)));
            }
        }
    }
}

pub fn run(r: &mut Report) {
    let fams: Vec<Family> = gen::ALL_FAMILIES.to_vec();
    let per_family = if r.quick() { 25 } else { 100 };
    let iters = if r.quick() { 40 } else { 200 };
    let mut rng = Rng::new(r.seed ^ 0xC01);
    let mut items: Vec<(String, Prog, usize, u64)> = vec![];
    for (name, p) in gen::corpus() {
        let k = items.len();
        items.push((format!("corpus:{name}"), with_rand(p, &mut rng), k, rng.next()));
    }
    for f in &fams {
        for i in 0..per_family {
            let mut g = rng.fork();
            let size = 1 + i % 2;
            let p = with_rand(gen::generate(*f, &mut g, size), &mut g);
            for k in 0..8 {
                if (i + k) % 2 == 0 || !r.quick() {
                    items.push((format!("{f:?}/{i}"), p.clone(), k, rng.next()));
                }
            }
        }
    }
    let accs = oracle::parallel(items.len(), oracle::workers(), |i, acc| {
        let (label, p, k, seed) = &items[i];
        record_and_replay(p, *k, *seed, iters, acc, label);
    });
    for a in accs {
        a.merge_into(r);
    }
    r.rule = "generated and corpus programs (all primitive families, with shuttle::rand draws inserted) run under random, PCT d∈{1,2,3,5}, URW, DFS(random data allowed) and round-robin schedulers; EVERY execution (passing, deadlocking, panicking) is replayed through ReplayScheduler::new_from_encoded(serialize_schedule(runtime's record)) and compared event by event (offered sets, current, yielding flag, choice, draw values, body call/return events with results, termination); the runtime's record must equal what the wrapper saw; the uncontrolled-nondeterminism checker is run on every passing body. evaluations = original executions; distinct_nontrivial = distinct choice sequences with a real choice".into();
    r.assumptions = vec!["bodies are the harness's own deterministic programs".into()];
}
