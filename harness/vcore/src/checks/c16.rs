//! C16: schedule strings round-trip exactly; malformed strings are rejected by the return value.
use crate::util::{hash64, Report, Rng};
use serde_json::json;
use shuttle::scheduler::{Schedule, TaskId};
use shuttle_engine::scheduler::serialization::{deserialize_schedule, serialize_schedule};
use shuttle_engine::scheduler::ScheduleStep;

pub fn boundary_seeds(rng: &mut Rng) -> Vec<u64> {
    let mut v = vec![0, 1, u64::MAX, 1 << 63, (1 << 63) - 1, (1 << 63) + 1];
    for k in 1..=9 {
        let b = 1u64.checked_shl(7 * k).unwrap_or(0);
        if b != 0 {
            v.push(b);
            v.push(b - 1);
            v.push(b.wrapping_add(1));
        }
    }
    for _ in 0..8 {
        v.push(rng.next());
    }
    v
}

pub fn boundary_tids(rng: &mut Rng) -> Vec<usize> {
    let mut v = vec![0usize, 1, 2, 3, usize::MAX, usize::MAX - 1, usize::MAX / 2, usize::MAX / 2 + 1];
    for k in 1..usize::BITS {
        let b = 1usize << k;
        v.push(b);
        v.push(b - 1);
        v.push(b + 1);
    }
    for _ in 0..8 {
        v.push(rng.next() as usize);
    }
    v
}

pub fn gen_schedule(rng: &mut Rng, seeds: &[u64], tids: &[usize], max_len: usize) -> Schedule {
    let seed = *rng.pick(seeds);
    let len = match rng.below(10) {
        0 => 0,
        1 => 1,
        2 => rng.range(2, 8),
        3..=7 => rng.range(0, max_len.min(200)),
        _ => rng.range(0, max_len),
    };
    // how large ids get in this schedule
    let max_tid = match rng.below(6) {
        0 => 0,
        1 => 1,
        2 => 3,
        3 => 16,
        4 => 1000,
        _ => *rng.pick(tids),
    };
    let style = rng.below(5);
    let mut steps = Vec::with_capacity(len);
    for i in 0..len {
        let random = match style {
            0 => false,
            1 => true,
            2 => i % 2 == 0,
            3 => rng.chance(1, 10),
            _ => rng.chance(1, 2),
        };
        if random {
            steps.push(ScheduleStep::Random);
        } else {
            let t = if max_tid == 0 {
                0
            } else if rng.chance(1, 8) {
                max_tid
            } else {
                (rng.next() as usize) % max_tid.saturating_add(1).max(1)
            };
            steps.push(ScheduleStep::Task(TaskId::from(t)));
        }
    }
    Schedule { seed, steps }
}

fn describe(s: &Schedule) -> serde_json::Value {
    let steps: Vec<String> = s
        .steps
        .iter()
        .take(12)
        .map(|x| match x {
            ScheduleStep::Random => "R".to_string(),
            ScheduleStep::Task(t) => format!("T{}", usize::from(*t)),
        })
        .collect();
    json!({"seed": s.seed, "len": s.steps.len(), "first_steps": steps})
}

/// Decode under catch_unwind: Ok(Some/None) or Err(panic message)
pub fn decode(s: &str) -> Result<Option<Schedule>, String> {
    let s2 = s.to_string();
    std::panic::catch_unwind(move || deserialize_schedule(&s2)).map_err(|p| crate::util::panic_message(&p))
}

pub fn with_whitespace(rng: &mut Rng, enc: &str) -> String {
    let mut out = String::new();
    let ws = [" ", "\n", "\t", "\r\n", "  "];
    if rng.chance(1, 2) {
        out.push_str(ws[rng.below(ws.len())]);
    }
    for c in enc.chars() {
        out.push(c);
        if rng.chance(1, 6) {
            out.push_str(ws[rng.below(ws.len())]);
        }
    }
    if rng.chance(1, 2) {
        out.push_str(ws[rng.below(ws.len())]);
    }
    out
}

pub fn run(r: &mut Report) {
    let mut rng = Rng::new(r.seed ^ 0xC16);
    let seeds = boundary_seeds(&mut rng);
    let tids = boundary_tids(&mut rng);
    let n_round = if r.quick() { 100_000 } else { 1_000_000 };
    let n_malformed_per = if r.quick() { 6 } else { 12 };
    let max_len = if r.quick() { 1500 } else { 5000 };
    let mut nontrivial = 0u64;
    let mut classes: std::collections::BTreeMap<&'static str, u64> = Default::default();
    let mut bump = |k: &'static str| *classes.entry(k).or_insert(0) += 1;

    // fixed corner cases first
    let mut fixed: Vec<Schedule> = vec![
        Schedule { seed: 0, steps: vec![] },
        Schedule { seed: u64::MAX, steps: vec![] },
        Schedule { seed: 7, steps: vec![ScheduleStep::Random] },
        Schedule { seed: 7, steps: vec![ScheduleStep::Task(TaskId::from(usize::MAX))] },
        Schedule { seed: 7, steps: vec![ScheduleStep::Task(TaskId::from(0))] },
    ];
    // every length whose encoding ends near a 76-column line wrap, for widths 1..3
    for len in 0..400usize {
        fixed.push(Schedule {
            seed: 3,
            steps: (0..len).map(|i| ScheduleStep::Task(TaskId::from(i % 2))).collect(),
        });
    }
    for len in (0..300usize).step_by(7) {
        fixed.push(Schedule {
            seed: 1 << 40,
            steps: (0..len).map(|i| if i % 3 == 0 { ScheduleStep::Random } else { ScheduleStep::Task(TaskId::from(i % 5)) }).collect(),
        });
    }

    let total = fixed.len() + n_round;
    for i in 0..total {
        let s = if i < fixed.len() { fixed[i].clone() } else { gen_schedule(&mut rng, &seeds, &tids, max_len) };
        r.evaluations += 1;
        let enc = match std::panic::catch_unwind(|| serialize_schedule(&s)) {
            Ok(e) => e,
            Err(p) => {
                r.violation("serialize-panics", &format!("serialize_schedule panicked: {}", crate::util::panic_message(&p)), describe(&s));
                continue;
            }
        };
        if !s.steps.is_empty() {
            nontrivial += 1;
            r.distinct.insert(hash64(enc.as_bytes()));
        }
        if i % 5000 == 0 {
            r.sample(json!({"schedule": describe(&s), "encoded_prefix": enc.chars().take(60).collect::<String>()}));
        }
        // 1. as produced
        let variants: [(&'static str, String); 3] = [
            ("as-produced", enc.clone()),
            ("line-breaks-removed", enc.replace('\n', "")),
            ("whitespace-added", with_whitespace(&mut rng, &enc)),
        ];
        for (name, text) in variants.iter() {
            match decode(text) {
                Ok(Some(d)) if d == s => {}
                Ok(Some(d)) => r.violation(
                    &format!("roundtrip-differs:{name}"),
                    &format!("decode(encode(s)) != s ({name}): got seed {} len {}", d.seed, d.steps.len()),
                    json!({"schedule": describe(&s), "text": text.chars().take(200).collect::<String>()}),
                ),
                Ok(None) => r.violation(
                    &format!("roundtrip-rejected:{name}"),
                    &format!("a valid encoding was rejected ({name})"),
                    json!({"schedule": describe(&s), "text": text.chars().take(200).collect::<String>()}),
                ),
                Err(p) => r.violation(
                    &format!("roundtrip-panics:{name}"),
                    &format!("decoding a valid encoding panicked ({name}): {p}"),
                    json!({"schedule": describe(&s), "text": text.chars().take(200).collect::<String>()}),
                ),
            }
        }
        // 2. malformed neighbours of this valid encoding (only for a subset, they are costly)
        if i < fixed.len() || i % 8 == 0 {
            let flat = enc.replace('\n', "");
            let nbytes = flat.len() / 2;
            // strict prefixes
            let mut cuts: Vec<usize> = vec![];
            for _ in 0..n_malformed_per {
                if flat.len() > 0 {
                    cuts.push(rng.below(flat.len()));
                }
            }
            cuts.extend([0usize, 1, 2, 3, 4].iter().filter(|c| **c < flat.len()));
            if flat.len() >= 2 {
                cuts.push(flat.len() - 1);
                cuts.push(flat.len() - 2);
            }
            for c in cuts {
                let text = &flat[..c];
                bump("strict-prefix");
                r.evaluations += 1;
                match decode(text) {
                    Ok(None) => {}
                    // dropping pure padding bytes leaves a complete encoding of the same schedule
                    Ok(Some(d)) if d == s && c % 2 == 0 => bump("prefix-only-dropped-padding"),
                    Ok(Some(d)) => r.violation(
                        "truncated-decoded",
                        &format!("a truncated encoding ({c} of {} hex chars) was decoded into a different schedule (seed {} len {})", flat.len(), d.seed, d.steps.len()),
                        json!({"schedule": describe(&s), "text": text.chars().take(200).collect::<String>()}),
                    ),
                    Err(p) => {
                        let class = if c == 0 { "empty-string" } else if c % 2 == 1 { "odd-length" } else if c < 8 { "cut-in-header" } else { "cut-in-body" };
                        r.violation(
                            &format!("malformed-panics:{class}"),
                            &format!("decoder panicked on a truncated string ({c} of {} hex chars): {p}", flat.len()),
                            json!({"schedule": describe(&s), "text": text.chars().take(200).collect::<String>()}),
                        )
                    }
                }
            }
            // non-hex character
            if !flat.is_empty() {
                let pos = rng.below(flat.len());
                let mut t: Vec<char> = flat.chars().collect();
                t[pos] = *rng.pick(&['g', 'z', '-', '_', 'é', '%']);
                let text: String = t.into_iter().collect();
                bump("non-hex");
                r.evaluations += 1;
                match decode(&text) {
                    Ok(None) => {}
                    Ok(Some(_)) => r.violation("nonhex-decoded", "a string with a non-hexadecimal character was decoded", json!({"text": text.chars().take(200).collect::<String>()})),
                    Err(p) => r.violation("malformed-panics:non-hex", &format!("decoder panicked on a non-hex string: {p}"), json!({"text": text.chars().take(200).collect::<String>()})),
                }
            }
            // wrong magic / version
            if nbytes >= 1 {
                let v = loop {
                    let v = (rng.next() & 0xff) as u8;
                    if v != 0x91 {
                        break v;
                    }
                };
                let text = format!("{:02x}{}", v, &flat[2..]);
                bump("wrong-version");
                r.evaluations += 1;
                match decode(&text) {
                    Ok(None) => {}
                    Ok(Some(_)) => r.violation("wrong-version-decoded", &format!("a string with version byte {v:#x} was decoded"), json!({"text": text.chars().take(200).collect::<String>()})),
                    Err(p) => r.violation("malformed-panics:wrong-version", &format!("decoder panicked on unknown version: {p}"), json!({"text": text.chars().take(200).collect::<String>()})),
                }
            }
        }
    }
    // 3. hand-made malformed headers: declared length / bit width far beyond the data, varint overflow
    let header_cases: Vec<(&'static str, String)> = vec![
        ("empty-string", "".into()),
        ("only-whitespace", " \n\t ".into()),
        ("version-only", "91".into()),
        ("version-and-width", "9101".into()),
        ("no-seed", "910101".into()),
        ("declared-steps-without-body", "91010500".into()),
        ("declared-huge-length", "9101ffffffffffffffff0100".into()),
        ("declared-large-length", "9101ffffffff0f0000".into()),
        ("width-zero", "9100010000".into()),
        ("width-65", "9141010000000000000000000000".into()),
        ("width-huge", "91ffffffff0f010000".into()),
        ("varint-overflow", "9101ffffffffffffffffff7f00".into()),
        ("varint-unterminated", "9101ffffff".into()),
        ("uppercase-hex-valid", "91010100 00".to_uppercase()),
    ];
    // these may die in the allocator (abort): run each in a forked child, a death is an observation
    let accs = crate::oracle::parallel(header_cases.len(), header_cases.len().min(8).max(2), |i, acc| {
        let (class, text) = &header_cases[i];
        acc.evaluations += 1;
        acc.add("hand_made_headers", 1);
        match decode(text) {
            Ok(None) => {}
            Ok(Some(d)) => {
                // a complete encoding is fine (e.g. upper-case hex of a valid string)
                let re = serialize_schedule(&d).replace('\n', "");
                let flat: String = text.chars().filter(|c| !c.is_whitespace()).collect::<String>().to_lowercase();
                if !flat.starts_with(&re) {
                    acc.violation(
                        &format!("malformed-decoded:{class}"),
                        format!("malformed string ({class}) decoded into seed {} len {}", d.seed, d.steps.len()),
                        json!({"text": text}),
                    );
                }
            }
            Err(p) => acc.violation(&format!("malformed-panics:{class}"), format!("decoder panicked on {class}: {p}"), json!({"text": text})),
        }
    });
    for mut a in accs {
        // name the input class a dead worker was decoding
        for v in a.violations.iter_mut() {
            if v.sig == "process-died" {
                let item = v.witness["item"].as_u64().unwrap_or(0) as usize;
                if let Some((class, text)) = header_cases.get(item) {
                    v.sig = format!("malformed-aborts:{class}");
                    v.what = format!("the process died (abort/signal) while decoding the malformed string {text:?} ({class})");
                }
            }
        }
        a.merge_into(r);
    }
    r.set("roundtrip_schedules", json!(total));
    r.set("nonempty_schedules", json!(nontrivial));
    r.set("malformed_inputs_by_class", json!(classes));
    r.rule = "schedules generated from boundary seeds (0,1,2^(7k)±1,2^63,u64::MAX,random), task ids at every power of two ±1 up to usize::MAX, lengths 0..max incl. every length 0..400 (line-wrap boundaries), five step mixes; each encoded and decoded as produced / without line breaks / with whitespace inserted anywhere; malformed neighbours: strict prefixes at random and boundary cut points, non-hex characters, unknown versions, hand-made headers with oversized length/width and varint overflow; the only accepted result for a malformed string is None. distinct_nontrivial = distinct non-empty encodings (by hash)".into();
    r.assumptions = vec!["a truncated string that still decodes to exactly the original schedule (only zero padding bytes were cut) is accepted".into()];
}
