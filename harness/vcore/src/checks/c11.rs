//! C11: PCT runs the highest-priority offered task, changes priorities only at task creation,
//! explicit yields and at most depth-1 change points (each demoting the running task), meets the
//! detection bound, and runs exactly the requested number of iterations deterministically.
use crate::gen::{self, Family};
use crate::oracle::{self, Acc};
use crate::prog::*;
use crate::rec::{self, Ev, ExecLog, Term};
use crate::util::{Report, Rng};
use serde_json::json;
use shuttle::scheduler::*;
use std::cell::RefCell;
use std::collections::BTreeSet;
use std::rc::Rc;
use std::sync::Arc;

use super::c01::{first_diff, signature};

fn body_of(prog: &Prog) -> (impl Fn() + Send + Sync + Clone + 'static, Arc<std::sync::Mutex<Option<Arc<World>>>>) {
    let slot: Arc<std::sync::Mutex<Option<Arc<World>>>> = Arc::new(std::sync::Mutex::new(None));
    let p2 = prog.clone();
    let s2 = slot.clone();
    (move || run_prog(&p2, false, &s2), slot)
}

fn run_pct(prog: &Prog, seed: u64, depth: usize, iters: usize, keep_results: bool) -> (Vec<(ExecLog, Vec<Vec<i64>>)>, Term, Option<usize>) {
    let (body, slot) = body_of(prog);
    let collected: Rc<RefCell<Vec<(ExecLog, Vec<Vec<i64>>)>>> = Rc::new(RefCell::new(vec![]));
    let c2 = collected.clone();
    let mut cfg = rec::base_config();
    cfg.max_steps = shuttle::MaxSteps::FailAfter(5_000);
    let rr = rec::run_streamed(PctScheduler::new_from_seed(seed, depth, iters), cfg, body, move |f| {
        let mut res = vec![];
        if let Some(w) = slot.lock().unwrap().take() {
            if keep_results {
                res = w.results.lock().unwrap().clone();
            }
            w.forget_endpoints();
        }
        c2.borrow_mut().push((f.log, res));
    });
    let v = std::mem::take(&mut *collected.borrow_mut());
    (v, rr.term, rr.iterations)
}

/// Black-box check of one PCT execution (not the first of a run). Returns (violations, demotions seen).
pub fn trace_check(log: &ExecLog, depth: usize) -> (Vec<(String, String)>, usize) {
    let mut out = vec![];
    // higher[a] contains b  <=>  we know a has priority over b
    let mut higher: Vec<BTreeSet<usize>> = vec![];
    let mut known: BTreeSet<usize> = BTreeSet::new();
    let mut pending_creations = 0usize;
    let mut demotions = 0usize;
    let ensure = |h: &mut Vec<BTreeSet<usize>>, t: usize| {
        while h.len() <= t {
            h.push(BTreeSet::new());
        }
    };
    let to_bottom = |h: &mut Vec<BTreeSet<usize>>, known: &BTreeSet<usize>, t: usize| {
        // t becomes lower than every known task
        h[t].clear();
        for k in known {
            if *k != t {
                h[*k].insert(t);
            }
        }
    };
    for (i, e) in log.events.iter().enumerate() {
        let Ev::Decision(d) = e else { continue };
        let Some(c) = d.choice else { continue };
        for (t, _) in &d.offered {
            ensure(&mut higher, *t);
            if known.insert(*t) {
                // first time this task is offered: it was created since the last decision
                pending_creations += 1;
            }
        }
        if d.offered.len() >= 2 {
            // an explicit yield demotes the running task, legitimately
            if d.yielding {
                if let Some(cur) = d.current {
                    ensure(&mut higher, cur);
                    to_bottom(&mut higher, &known, cur);
                }
            }
        }
        // contradictions: an offered task known to outrank the chosen one
        let offenders: Vec<usize> = d.offered.iter().map(|o| o.0).filter(|o| *o != c && higher[*o].contains(&c)).collect();
        for o in offenders {
            if Some(o) == d.current {
                // the running task lost its priority: a change point
                demotions += 1;
                to_bottom(&mut higher, &known, o);
            } else if pending_creations > 0 {
                // a task creation may have swapped this task to the bottom
                pending_creations -= 1;
                to_bottom(&mut higher, &known, o);
            } else {
                out.push((
                    "priority-order-broken".to_string(),
                    format!("event {i}: chose task {c} although task {o} (offered, not the running task {:?}, no yield, no unconsumed task creation) had outranked it earlier in this execution", d.current),
                ));
                to_bottom(&mut higher, &known, o);
            }
        }
        // the running task was offered but not continued: it may have been demoted silently at a
        // change point, so nothing it outranked before can be relied on any more
        if let Some(cur) = d.current {
            if cur != c {
                ensure(&mut higher, cur);
                higher[cur].clear();
            }
        }
        // learn: chosen outranks every other offered task
        for (o, _) in &d.offered {
            if *o != c {
                higher[c].insert(*o);
                higher[*o].remove(&c);
            }
        }
    }
    if demotions > depth.saturating_sub(1) {
        out.push((
            "too-many-change-points".to_string(),
            format!("{demotions} demotions of a non-yielding running task in one execution at depth {depth} (at most {} allowed)", depth.saturating_sub(1)),
        ));
    }
    (out, demotions)
}

fn trace_family(prog: &Prog, seed: u64, depth: usize, iters: usize, acc: &mut Acc, label: &str) {
    let wit = |extra: serde_json::Value| json!({"family": label, "depth": depth, "sched_seed": seed, "program": prog.describe(), "detail": extra});
    let (a, ta, ia) = run_pct(prog, seed, depth, iters, false);
    acc.evaluations += a.len() as u64;
    acc.add("pct_runs", 1);
    if ta == Term::Pass {
        if a.len() != iters || ia != Some(iters) {
            acc.violation("iteration-count", format!("PCT asked for {iters} iterations: ran {} executions, run returned {:?}", a.len(), ia), wit(json!(null)));
        }
    } else if let Term::Panic(m) = &ta {
        if m.contains("did not exercise any concurrency") {
            acc.add("pct_runs_without_concurrency", 1);
            return;
        }
    }
    let mut demo_hist = vec![0u64; 8];
    for (idx, (log, _)) in a.iter().enumerate() {
        if rec::nontrivial(log) {
            acc.distinct.insert(rec::hash_choices(log));
        }
        if idx == 0 {
            continue; // the first iteration only estimates the length
        }
        acc.add("decisions_trace_checked", log.events.iter().filter(|e| matches!(e, Ev::Decision(_))).count() as u64);
        let (v, dem) = trace_check(log, depth);
        demo_hist[dem.min(7)] += 1;
        for (sig, what) in v {
            acc.violation(&sig, what, wit(json!({"iteration": idx, "choices": rec::choice_seq(log)})));
        }
    }
    for (k, n) in demo_hist.iter().enumerate() {
        if *n > 0 {
            acc.add(&format!("executions_with_{k}_observed_demotions"), *n);
        }
    }
    // determinism
    let (b, tb, _) = run_pct(prog, seed, depth, iters, false);
    acc.evaluations += b.len() as u64;
    if a.len() != b.len() || ta != tb {
        acc.violation("same-seed-differs", format!("two PCT runs from seed {seed}: {} vs {} executions", a.len(), b.len()), wit(json!(null)));
    } else {
        for (i, (x, y)) in a.iter().zip(b.iter()).enumerate() {
            if let Some((j, d)) = first_diff(&signature(&x.0), &signature(&y.0)) {
                acc.violation("same-seed-differs", format!("execution {i} differs at event {j}: {d}"), wit(json!(null)));
                break;
            }
        }
    }
    if acc.samples.len() < 2 {
        acc.samples.push(json!({"kind": "trace", "family": label, "depth": depth, "program": prog.describe(), "iterations": a.len()}));
    }
}

/// Planted bug: B must read X exactly when A has done j of its k increments. Depth 2 for 0<j<k,
/// depth 1 for j == 0 (B before A's first increment).
fn hit_rate(k: usize, j: usize, depth: usize, seed: u64, iters: usize, acc: &mut Acc) {
    let tasks = vec![
        vec![Op::Spawn(1), Op::Spawn(2)],
        (0..k).map(|_| Op::FetchAdd(0, 1)).collect(),
        vec![Op::Load(0)],
    ];
    let prog = Prog { objs: vec![Obj::Atomic(0)], tasks, senders: vec![], receivers: vec![] };
    let (execs, term, _) = run_pct(&prog, seed, depth, iters, true);
    acc.evaluations += execs.len() as u64;
    if term != Term::Pass || execs.len() < iters / 2 {
        acc.notes.push(format!("hit-rate workload ended {:?} after {} executions", term, execs.len()));
        return;
    }
    // PCT's k: the number of multi-choice steps of the longest execution
    let ksteps = execs
        .iter()
        .map(|(l, _)| l.events.iter().filter(|e| matches!(e, Ev::Decision(d) if d.offered.len() > 1)).count())
        .max()
        .unwrap_or(1)
        .max(1);
    let n = 3.0f64;
    let warm = 10usize;
    let used = &execs[warm.min(execs.len())..];
    let hits = used.iter().filter(|(_, r)| r.get(2).and_then(|v| v.first()) == Some(&(j as i64))).count();
    for (l, _) in used.iter().take(2000) {
        if rec::nontrivial(l) {
            acc.distinct.insert(rec::hash_choices(l));
        }
    }
    let bug_depth = if j == 0 || j == k { 1 } else { 2 };
    let total = used.len() as f64;
    let rate = hits as f64 / total;
    acc.add("hit_rate_experiments", 1);
    {
        let bound = 1.0 / (n * (ksteps as f64).powi(depth as i32 - 1));
        acc.notes.push(format!("hit-rate: k_increments={k} j={j} bug_depth={bug_depth} pct_depth={depth} n=3 k_steps={ksteps} iterations={} hits={hits} rate={rate:.5} guaranteed={:.5}", used.len(), if depth >= bug_depth { bound } else { 0.0 }));
        acc.samples.push(json!({"kind": "hit-rate", "k_increments": k, "j": j, "pct_depth": depth, "bug_depth": bug_depth, "k_steps": ksteps, "iterations": used.len(), "hits": hits, "rate": rate}));
    }
    if depth >= bug_depth {
        let bound = 1.0 / (n * (ksteps as f64).powi(depth as i32 - 1));
        let sigma = (total * bound * (1.0 - bound)).sqrt();
        let floor = total * bound - 6.2 * sigma;
        if (hits as f64) < floor {
            acc.violation(
                "detection-bound-missed",
                format!("depth-{bug_depth} bug, PCT depth {depth}, n=3 tasks, k={ksteps} steps: {hits} hits in {} iterations (rate {rate:.5}) is significantly below the guaranteed 1/(n·k^(d-1)) = {bound:.5} (p<1e-9)", used.len()),
                json!({"k_increments": k, "j": j, "depth": depth, "seed": seed}),
            );
        }
    } else if hits > 0 {
        // fewer change points than the bug needs: with strict priorities it can never be hit
        acc.violation(
            "bug-hit-with-too-few-change-points",
            format!("a depth-{bug_depth} bug was hit {hits} times at PCT depth {depth}: priorities changed more often than depth-1 times"),
            json!({"k_increments": k, "j": j, "depth": depth, "seed": seed}),
        );
    }
}

/// Every position of a single preemption, including the LAST multi-choice decision: main spawns a
/// reader whose whole body is one step (it reads a std atomic, no scheduling point of its own) and
/// then performs `m` steps, each a Shuttle-visible store followed by publishing its index. The reader
/// observes v = the number of steps main had done when the reader ran. Every execution has the same
/// multi-choice steps, so PCT's estimate of k is exact; at depth 2 every v in 0..m must be hit with
/// probability >= 1/(n*k) (v = m-1 needs the change point on the last decision).
fn preemption_positions(m: usize, seed: u64, iters: usize, acc: &mut Acc) {
    use std::sync::atomic::{AtomicUsize as StdAtomic, Ordering as O};
    let hist: Arc<Vec<StdAtomic>> = Arc::new((0..=m).map(|_| StdAtomic::new(0)).collect());
    let ksteps = Arc::new(StdAtomic::new(0));
    let (h2, k2) = (hist.clone(), ksteps.clone());
    let warm = 10usize;
    let count = Arc::new(StdAtomic::new(0));
    let c2 = count.clone();
    let mut cfg = rec::base_config();
    cfg.max_steps = shuttle::MaxSteps::FailAfter(5_000);
    let h3 = hist.clone();
    let rr = rec::run_streamed(
        PctScheduler::new_from_seed(seed, 2, iters),
        cfg,
        move || {
            let published = Arc::new(StdAtomic::new(0));
            let x = Arc::new(shuttle::sync::atomic::AtomicUsize::new(0));
            let p2 = published.clone();
            let (h, c) = (h2.clone(), c2.clone());
            let reader = shuttle::thread::spawn(move || {
                let v = p2.load(O::SeqCst);
                if c.load(O::SeqCst) >= warm {
                    h[v].fetch_add(1, O::SeqCst);
                }
            });
            for i in 0..m {
                x.store(i, shuttle::sync::atomic::Ordering::SeqCst);
                published.store(i + 1, O::SeqCst);
            }
            reader.join().unwrap();
            c2.fetch_add(1, O::SeqCst);
        },
        move |f| {
            let k = f.log.events.iter().filter(|e| matches!(e, Ev::Decision(d) if d.offered.len() > 1)).count();
            k2.fetch_max(k, O::SeqCst);
        },
    );
    let _ = h3;
    let total = count.load(O::SeqCst).saturating_sub(warm) as f64;
    acc.evaluations += count.load(O::SeqCst) as u64;
    acc.add("hit_rate_experiments", 1);
    if rr.term != Term::Pass || total < (iters / 2) as f64 {
        acc.notes.push(format!("preemption-position workload ended {:?} after {} executions", rr.term, count.load(O::SeqCst)));
        return;
    }
    let k = ksteps.load(O::SeqCst).max(1) as f64;
    let bound = 1.0 / (2.0 * k);
    let sigma = (total * bound * (1.0 - bound)).sqrt();
    let floor = total * bound - 6.2 * sigma;
    let counts: Vec<usize> = hist.iter().map(|c| c.load(O::SeqCst)).collect();
    acc.notes.push(format!("hit-rate: preemption positions m={m} pct_depth=2 n=2 k_steps={} iterations={} histogram(reader saw v steps)={:?} guaranteed_per_position={bound:.5}", k as usize, total as usize, counts));
    for (v, c) in counts.iter().enumerate().take(m) {
        if v == 0 {
            continue; // v = 0 is the depth-1 outcome (reader first)
        }
        if (*c as f64) < floor {
            acc.violation(
                "detection-bound-missed",
                format!("single-preemption bug at position {v} of {m} (the reader must run after exactly {v} of main's {m} steps): {c} hits in {} iterations is significantly below the guaranteed 1/(n*k) = {bound:.5} (p<1e-9); histogram {:?}", total as usize, counts),
                json!({"m": m, "position": v, "seed": seed}),
            );
        }
    }
}

pub fn run(r: &mut Report) {
    let mut rng = Rng::new(r.seed ^ 0xC11);
    let per_family = if r.quick() { 3 } else { 25 };
    let iters = if r.quick() { 40 } else { 200 };
    let mut items: Vec<(String, Prog, u64, usize)> = vec![];
    let mut fams = gen::ALL_FAMILIES.to_vec();
    fams.retain(|f| *f != Family::Park); // spurious wake-ups of parked tasks are runtime-made choices outside PCT's order
    for f in fams {
        for i in 0..per_family {
            let mut g = rng.fork();
            let mut p = gen::generate(f, &mut g, 1 + i % 2);
            if i % 2 == 1 {
                for t in 0..p.tasks.len() {
                    if g.chance(1, 3) {
                        let pos = g.below(p.tasks[t].len() + 1);
                        p.tasks[t].insert(pos, Op::Yield);
                    }
                }
            }
            for depth in [1usize, 2, 3, 5] {
                if r.quick() && (i + depth) % 2 == 0 {
                    continue;
                }
                items.push((format!("{f:?}/{i}"), p.clone(), rng.next(), depth));
            }
        }
    }
    let n_trace = items.len();
    let hr_iters = if r.quick() { 60_000 } else { 1_500_000 };
    // (k increments, j, pct depth)
    let hr: Vec<(usize, usize, usize, u64)> = vec![
        (6, 3, 2, rng.next()),
        (12, 5, 2, rng.next()),
        (6, 0, 1, rng.next()),
        (8, 4, 1, rng.next()),
        (6, 2, 3, rng.next()),
        // the preemption on the LAST multi-choice decision (B reads after k-1 of k increments)
        (6, 5, 2, rng.next()),
        (9, 8, 2, rng.next()),
        // ... and on the first one that may be a change point
        (6, 1, 2, rng.next()),
    ];
    let pp: Vec<(usize, u64)> = vec![(4, rng.next()), (7, rng.next())];
    let accs = oracle::parallel(n_trace + hr.len() + pp.len(), oracle::workers(), |i, acc| {
        if i >= n_trace + hr.len() {
            let (m, s) = pp[i - n_trace - hr.len()];
            preemption_positions(m, s, hr_iters / 2, acc);
        } else if i < n_trace {
            let (label, p, s, d) = &items[i];
            trace_family(p, *s, *d, iters, acc, label);
        } else {
            let (k, j, d, s) = hr[i - n_trace];
            hit_rate(k, j, d, s, hr_iters, acc);
        }
    });
    for a in accs {
        a.merge_into(r);
    }
    r.rule = "programs of every family (with yields) run under PctScheduler at depths 1,2,3,5; every execution after the first is checked by a black-box priority-order trace checker (the chosen task must not be outranked by an offered task unless that task is the running task being demoted — counted, ≤ depth-1 per execution unless is_yielding — or an unconsumed task creation explains the swap); iteration count == requested; two runs per seed identical; planted-bug family (B must read X after exactly j of A's k increments): hit count tested one-sidedly against 1/(n·k^(d-1)) at p<1e-9 after 10 warm-up iterations, and a depth-2 bug must never be hit at depth 1. evaluations = executions; distinct_nontrivial = distinct choice sequences with a real choice".into();
    r.assumptions = vec!["observed demotions are a lower bound on real change points".into(), "k is measured as the number of multi-choice decisions of the longest execution, which is PCT's own estimate".into()];
}
