//! C13: step, iteration and time bounds are enforced as configured.
use crate::explore::PosScheduler;
use crate::gen::{self, Family};
use crate::oracle::{self, Acc};
use crate::prog::*;
use crate::rec::{self, Ev, Term};
use crate::util::{Report, Rng};
use serde_json::json;
use shuttle::scheduler::*;
use std::cell::RefCell;
use std::rc::Rc;
use std::sync::Arc;

use super::c01::{make_sched, sched_name};

fn body_of(prog: &Prog) -> (impl Fn() + Send + Sync + Clone + 'static, Arc<std::sync::Mutex<Option<Arc<World>>>>) {
    let slot: Arc<std::sync::Mutex<Option<Arc<World>>>> = Arc::new(std::sync::Mutex::new(None));
    let p2 = prog.clone();
    let s2 = slot.clone();
    (move || run_prog(&p2, false, &s2), slot)
}

fn steps(log: &rec::ExecLog) -> usize {
    log.events.iter().filter(|e| matches!(e, Ev::Draw(_)) || matches!(e, Ev::Decision(d) if d.choice.is_some())).count()
}

struct Run {
    execs: Vec<rec::ExecLog>,
    term: Term,
    iterations: Option<usize>,
    body_starts: usize,
}

fn run_with<S: Scheduler + 'static>(prog: &Prog, sched: S, cfg: shuttle::Config) -> Run {
    let (body, slot) = body_of(prog);
    let collected: Rc<RefCell<Vec<rec::ExecLog>>> = Rc::new(RefCell::new(vec![]));
    let c2 = collected.clone();
    let rr = rec::run_streamed(sched, cfg, body, move |f| {
        let _ = slot.lock().unwrap().take().map(std::mem::forget);
        c2.borrow_mut().push(f.log);
    });
    let execs = std::mem::take(&mut *collected.borrow_mut());
    let body_starts = execs
        .iter()
        .map(|l| l.events.iter().filter(|e| matches!(e, Ev::Body { tag, a, .. } if tag & TAG_START != 0 && *a == 0)).count())
        .sum();
    Run { execs, term: rr.term, iterations: rr.iterations, body_starts }
}

/// Step bounds around the measured length L of a deterministic (position-driven) execution.
fn step_bounds(prog: &Prog, pos: Vec<usize>, acc: &mut Acc, label: &str) {
    let wit = |extra: serde_json::Value| json!({"family": label, "program": prog.describe(), "positions": pos, "detail": extra});
    let mut cfg = rec::base_config();
    cfg.max_steps = shuttle::MaxSteps::None;
    let base = run_with(prog, PosScheduler::new(pos.clone(), 1), cfg.clone());
    if std::env::var("VERIF_DEBUG_C13").is_ok() && label.starts_with("hand:") {
        println!("DEBUG {label}: base term {:?} execs {} steps {:?}", base.term, base.execs.len(), base.execs.first().map(steps));
    }
    if let Term::Panic(m) = &base.term {
        // a generated program may deadlock, but it never panics
        acc.violation("body-panicked", format!("a well-formed program panicked without any bound: {m}"), wit(json!(null)));
    }
    if base.term != Term::Pass || base.execs.len() != 1 {
        acc.add("bodies_skipped_failing", 1);
        return;
    }
    let l = steps(&base.execs[0]);
    acc.add("bodies", 1);
    acc.evaluations += 1;
    acc.distinct.insert(rec::hash_choices(&base.execs[0]) ^ l as u64);
    if l == 0 {
        return;
    }
    let mut ns: Vec<usize> = vec![1, l.saturating_sub(2), l.saturating_sub(1), l, l + 1, l + 2, 2 * l];
    ns.retain(|n| *n >= 1);
    ns.sort();
    ns.dedup();
    for n in ns {
        // FailAfter
        let mut c = cfg.clone();
        c.max_steps = shuttle::MaxSteps::FailAfter(n);
        let r = run_with(prog, PosScheduler::new(pos.clone(), 1), c);
        acc.evaluations += 1;
        acc.add("bound_runs", 1);
        let done = r.execs.first().map(steps).unwrap_or(0);
        if done > n {
            acc.violation("steps-exceed-bound", format!("FailAfter({n}): the execution performed {done} steps (needs {l})"), wit(json!({"n": n, "L": l})));
        }
        if l > n {
            if r.term != Term::StepBound {
                acc.violation("failafter-did-not-fail", format!("FailAfter({n}) on an execution that needs {l} steps ended {:?}", r.term), wit(json!({"n": n, "L": l})));
            }
        } else if l < n {
            if r.term != Term::Pass {
                acc.violation("failafter-failed-early", format!("FailAfter({n}) failed an execution that needs only {l} steps: {:?}", r.term), wit(json!({"n": n, "L": l})));
            } else if r.execs.first().map(rec::choice_seq) != base.execs.first().map(rec::choice_seq) {
                acc.violation("bound-changes-execution", format!("FailAfter({n}) changed an execution that needs only {l} steps"), wit(json!({"n": n, "L": l})));
            }
        }
        // ContinueAfter: two iterations, never fails, both invoked
        let mut c = cfg.clone();
        c.max_steps = shuttle::MaxSteps::ContinueAfter(n);
        let r = run_with(prog, PosScheduler::new(pos.clone(), 2), c);
        acc.evaluations += 2;
        acc.add("bound_runs", 1);
        if r.term != Term::Pass {
            acc.violation("continueafter-raised", format!("ContinueAfter({n}) run failed: {:?} (execution needs {l} steps)", r.term), wit(json!({"n": n, "L": l})));
            continue;
        }
        if r.iterations != Some(2) || r.body_starts != 2 || r.execs.len() != 2 {
            acc.violation(
                "continueafter-iteration-count",
                format!("ContinueAfter({n}) with an iteration budget of 2: run returned {:?}, body started {} times, {} executions", r.iterations, r.body_starts, r.execs.len()),
                wit(json!({"n": n, "L": l})),
            );
        }
        for e in &r.execs {
            let done = steps(e);
            if done > n {
                acc.violation("steps-exceed-bound", format!("ContinueAfter({n}): an execution performed {done} steps"), wit(json!({"n": n, "L": l})));
            }
            if l < n && rec::choice_seq(e) != rec::choice_seq(&base.execs[0]) {
                acc.violation("bound-changes-execution", format!("ContinueAfter({n}) changed an execution that needs only {l} steps"), wit(json!({"n": n, "L": l})));
            }
        }
    }
    if acc.samples.len() < 3 {
        acc.samples.push(json!({"family": label, "program": prog.describe(), "positions": pos, "L": l}));
    }
}

/// Iteration budgets: the body runs exactly `budget` times and run returns that count.
fn budgets(prog: &Prog, k: usize, seed: u64, acc: &mut Acc, label: &str) {
    let wit = |extra: serde_json::Value| json!({"family": label, "scheduler": sched_name(k), "program": prog.describe(), "detail": extra});
    let cfg = rec::base_config();
    for b in [0usize, 1, 2, 17] {
        if k % 8 == 7 && b > 2 {
            continue; // make_sched caps round-robin at 2
        }
        let r = run_with(prog, make_sched(k, seed, b), cfg.clone());
        acc.add("budget_runs", 1);
        acc.evaluations += r.execs.len() as u64;
        if r.term != Term::Pass {
            continue; // failing bodies are not what this clause is about
        }
        // DFS may exhaust its tree before the budget; PCT asserts on bodies without concurrency
        let dfs = k % 8 == 6;
        let ok = if dfs { r.execs.len() <= b } else { r.execs.len() == b };
        if !ok || r.iterations != Some(r.execs.len()) || r.body_starts != r.execs.len() {
            acc.violation(
                "iteration-budget",
                format!("budget {b}: {} executions, body started {} times, run returned {:?}", r.execs.len(), r.body_starts, r.iterations),
                wit(json!({"budget": b})),
            );
        }
    }
    // time limit: zero means no iteration at all; the limit never interrupts an iteration
    let mut c = cfg.clone();
    c.max_time = Some(std::time::Duration::from_nanos(0));
    let r = run_with(prog, make_sched(k, seed, 5), c);
    acc.add("time_limit_runs", 1);
    if r.term == Term::Pass && (r.iterations != Some(r.execs.len()) || r.body_starts != r.execs.len()) {
        acc.violation("time-limit-count", format!("max_time=0: run returned {:?} but {} executions / {} body starts were seen", r.iterations, r.execs.len(), r.body_starts), wit(json!(null)));
    }
    let mut c = cfg.clone();
    c.max_time = Some(std::time::Duration::from_millis(2));
    let r = run_with(prog, make_sched(k, seed, 100_000), c);
    acc.add("time_limit_runs", 1);
    acc.evaluations += r.execs.len() as u64;
    if r.term == Term::Pass {
        if r.iterations != Some(r.execs.len()) || r.body_starts != r.execs.len() {
            acc.violation("time-limit-count", format!("max_time=2ms: run returned {:?} but {} executions / {} body starts were seen", r.iterations, r.execs.len(), r.body_starts), wit(json!(null)));
        }
        // every started iteration ran to its end (main's last op returned)
        let main_ops = prog.tasks[0].len();
        for e in &r.execs {
            let returns = e.events.iter().filter(|x| matches!(x, Ev::Body { tag, .. } if tag & (TAG_CALL | TAG_SPAWNMAP | TAG_START) == 0 && tag_task(*tag) == 0)).count();
            if returns != main_ops {
                acc.violation("time-limit-interrupted-iteration", format!("an iteration under max_time ended after {returns} of {main_ops} main-task operations"), wit(json!(null)));
                break;
            }
        }
    }
}

/// reset_step_count: the bound applies to the steps since the last reset.
fn reset_bodies(acc: &mut Acc) {
    // (yields, draws) before the reset and after it
    for (k1, d1, k2, d2) in [(3usize, 0usize, 5usize, 0usize), (6, 0, 2, 0), (4, 0, 4, 0), (1, 0, 9, 0), (2, 6, 5, 0), (1, 9, 3, 2), (3, 4, 2, 5), (0, 7, 6, 0)] {
        let mk = move || {
            move || {
                use shuttle::rand::Rng as _;
                for _ in 0..k1 {
                    shuttle::thread::yield_now();
                }
                for _ in 0..d1 {
                    let _: u64 = shuttle::rand::thread_rng().gen();
                }
                rec::body_event(77, shuttle::current::context_switches() as i64, 0);
                shuttle::current::reset_step_count();
                for _ in 0..k2 {
                    shuttle::thread::yield_now();
                }
                for _ in 0..d2 {
                    let _: u64 = shuttle::rand::thread_rng().gen();
                }
            }
        };
        // measure the step index of the reset (steps = decisions + draws)
        let mut cfg = rec::base_config();
        cfg.max_steps = shuttle::MaxSteps::None;
        let logs: Rc<RefCell<Vec<rec::ExecLog>>> = Rc::new(RefCell::new(vec![]));
        let l2 = logs.clone();
        let _ = rec::run_streamed(RoundRobinScheduler::new(1), cfg.clone(), mk(), move |f| l2.borrow_mut().push(f.log));
        let log = logs.borrow()[0].clone();
        let mut before = 0usize;
        let mut after = 0usize;
        let mut seen = false;
        for e in &log.events {
            match e {
                Ev::Body { tag: 77, .. } => seen = true,
                Ev::Draw(_) => {
                    if seen {
                        after += 1
                    } else {
                        before += 1
                    }
                }
                Ev::Decision(d) if d.choice.is_some() => {
                    if seen {
                        after += 1
                    } else {
                        before += 1
                    }
                }
                _ => {}
            }
        }
        let lmax = before.max(after);
        acc.add("reset_bodies", 1);
        acc.distinct.insert(crate::util::hash64(format!("reset{k1}-{d1}-{k2}-{d2}").as_bytes()));
        for n in [lmax.saturating_sub(1).max(1), lmax + 1, lmax + 2, before + after - 1, before + after + 1] {
            let mut c = cfg.clone();
            c.max_steps = shuttle::MaxSteps::FailAfter(n);
            let rr = rec::run_streamed(RoundRobinScheduler::new(1), c, mk(), |_f| {});
            acc.evaluations += 1;
            if n > lmax && rr.term != Term::Pass {
                acc.violation(
                    "reset-step-count-ignored",
                    format!("segments of {before} and {after} steps (decisions + draws) separated by reset_step_count(): FailAfter({n}) failed ({:?}) although no segment exceeds the bound", rr.term),
                    json!({"yields_before": k1, "draws_before": d1, "yields_after": k2, "draws_after": d2, "n": n}),
                );
            }
            if n < lmax && rr.term != Term::StepBound {
                acc.violation(
                    "reset-step-count-overshoot",
                    format!("segments of {before} and {after} steps: FailAfter({n}) ended {:?} although a segment needs {lmax} steps", rr.term),
                    json!({"yields_before": k1, "draws_before": d1, "yields_after": k2, "draws_after": d2, "n": n}),
                );
            }
            // ContinueAfter: an execution whose segments all stay below the bound must complete
            let mut c = cfg.clone();
            c.max_steps = shuttle::MaxSteps::ContinueAfter(n);
            let done: Rc<RefCell<Vec<usize>>> = Rc::new(RefCell::new(vec![]));
            let d3 = done.clone();
            let rr = rec::run_streamed(RoundRobinScheduler::new(1), c, mk(), move |f| d3.borrow_mut().push(steps(&f.log)));
            acc.evaluations += 1;
            if rr.term != Term::Pass {
                acc.violation("continueafter-raised", format!("ContinueAfter({n}) on a reset body failed: {:?}", rr.term), json!({"n": n}));
            } else if n > lmax && done.borrow().first().copied() != Some(before + after) {
                acc.violation(
                    "reset-step-count-ignored",
                    format!("segments of {before} and {after} steps separated by reset_step_count(): under ContinueAfter({n}) the execution was cut after {:?} steps although no segment exceeds the bound", done.borrow().first()),
                    json!({"yields_before": k1, "draws_before": d1, "yields_after": k2, "draws_after": d2, "n": n}),
                );
            }
        }
    }
}

pub fn run(r: &mut Report) {
    let mut rng = Rng::new(r.seed ^ 0xC13);
    let per_family = if r.quick() { 25 } else { 100 };
    let mut items: Vec<(String, Prog, u64)> = vec![];
    for f in [Family::Atomics, Family::Mutex, Family::RwLock, Family::Barrier, Family::Once, Family::ChanUnbounded, Family::ChanBounded, Family::Sem, Family::Mixed, Family::Condvar] {
        for i in 0..per_family {
            let mut g = rng.fork();
            let mut p = gen::generate(f, &mut g, 1 + i % 2);
            if i % 2 == 0 {
                p = super::c01::with_rand(p, &mut g);
            }
            items.push((format!("{f:?}/{i}"), p, rng.next()));
        }
    }
    // single-task bodies whose steps are mostly draws
    items.push(("hand:draws-only".into(), Prog { objs: vec![], tasks: vec![vec![Op::Rand, Op::Rand, Op::Rand, Op::Rand, Op::Yield, Op::Rand]], senders: vec![], receivers: vec![] }, rng.next()));
    items.push(("hand:yields-only".into(), Prog { objs: vec![], tasks: vec![vec![Op::Yield; 7]], senders: vec![], receivers: vec![] }, rng.next()));
    let n_items = items.len();
    let accs = oracle::parallel(n_items + 1, oracle::workers(), |i, acc| {
        if i == n_items {
            reset_bodies(acc);
            return;
        }
        let (label, p, s) = &items[i];
        let mut g = Rng::new(*s);
        for _ in 0..3 {
            let pos: Vec<usize> = (0..64).map(|_| g.below(4)).collect();
            step_bounds(p, pos, acc, label);
        }
        for k in 0..8 {
            budgets(p, k, g.next(), acc, label);
        }
    });
    for a in accs {
        a.merge_into(r);
    }
    r.rule = "per body (generated programs incl. rand draws; draw-only and yield-only bodies) and per position-driven deterministic schedule: step count L measured with MaxSteps::None, then FailAfter(n) and ContinueAfter(n) for n ∈ {1, L-2..L+2, 2L}: no execution may exceed n steps, FailAfter must fail iff L>n (L=n not judged) with the max-steps message, ContinueAfter must never raise and must keep the iteration count, executions needing <n steps must be unchanged; iteration budgets {0,1,2,17} under random/PCT/URW/DFS/round-robin: executions == body invocations == value returned by Runner::run == budget; max_time 0 and 2ms: count consistent and no iteration interrupted; reset_step_count bodies with two measured segments. evaluations = executions run; distinct_nontrivial = distinct (schedule,L) baselines".into();
    r.assumptions = vec!["an execution that needs exactly n steps under a bound of n is recorded but not judged (the statement leaves it open)".into()];
}
