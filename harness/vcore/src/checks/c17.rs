//! C17: async executor — no lost wake-up, no phantom poll, each task result delivered exactly once,
//! abort/detach semantics.
use crate::oracle::{self, Acc};
use crate::prog::Slot;
use crate::rec::{self, body_event, Ev, ExecLog, Term};
use crate::util::{Report, Rng};
use serde_json::json;
use shuttle::future::{self as sfuture, JoinError, JoinHandle};
use std::cell::RefCell;
use std::collections::{BTreeMap, BTreeSet};
use std::future::Future;
use std::pin::Pin;
use std::rc::Rc;
use std::sync::Arc;
use std::task::{Context, Poll, Wake, Waker};

use super::c01::{make_sched, sched_name};

const A_POLL_START: u32 = 4000; // a = uid
const A_POLL_END: u32 = 4001; // a = uid, b = 1 ready / 0 pending
const A_WAKE: u32 = 4002; // a = uid whose waker is invoked
const A_COMPLETE: u32 = 4003; // a = uid
const A_DROPPED: u32 = 4004; // a = uid (captures of the task's future destroyed)
const A_JOIN: u32 = 4005; // a = child uid, b = value or -1 (Cancelled)
const A_ABORT_CALL: u32 = 4006;
const A_ABORT_RET: u32 = 4007;
const A_DETACH: u32 = 4008;
const A_MAIN_END: u32 = 4009;
const A_INNER_POLL: u32 = 4010; // a = slot, b = 1 ready / 0 pending
const A_SPAWNED: u32 = 4011; // a = uid

#[derive(Clone, Debug, PartialEq)]
pub enum AOp {
    Spawn(usize),
    Wake(usize),
    Pend(usize),
    PendSelfWake,
    Yield,
    Add,
    Await(usize),
    /// poll the child's JoinHandle once in this task; if it is still pending, hand the handle to a
    /// helper task and await the helper (the handle's second poll comes with another task's waker)
    AwaitMoved(usize),
    AbortThenAwait(usize),
    AbortTwiceThenAwait(usize),
    Detach(usize),
    AbortThenDetach(usize),
    /// a thread-style nested block_on of a small future that pends on a slot
    NestedBlockOn(usize),
    /// join!(pend on slot a, blocking wait on slot b): within ONE poll the task registers its waker
    /// for slot a and then sleeps in a nested block_on for slot b; a wake for a that arrives during
    /// that sleep must still lead to another poll
    JoinNested(usize, usize),
    /// like JoinNested, but the second wait blocks in a synchronous primitive (Mutex + Condvar): the
    /// wake for a arrives while the task is *blocked*, not sleeping
    JoinSync(usize, usize),
}

#[derive(Clone, Debug)]
pub struct AProg {
    pub tasks: Vec<Vec<AOp>>,
    pub slots: usize,
    /// expected to deadlock on every schedule (no wake exists for some awaited pend)
    pub must_deadlock: bool,
}

pub struct AWorld {
    prog: AProg,
    flags: Vec<Slot<bool>>,
    wakers: Vec<Slot<Option<Waker>>>,
    counter: shuttle::sync::atomic::AtomicUsize,
    /// per slot: a synchronous gate opened by the same Wake op
    gates: Vec<(shuttle::sync::Mutex<bool>, shuttle::sync::Condvar)>,
}

/// Waker wrapper: every wake of a task, whoever issues it (user code, JoinHandle completion,
/// semaphore, yield_now), goes through here and is logged.
struct LogWaker {
    uid: usize,
    inner: Waker,
}
impl Wake for LogWaker {
    fn wake(self: Arc<Self>) {
        body_event_any(A_WAKE, self.uid as i64, 0);
        self.inner.wake_by_ref();
    }
    fn wake_by_ref(self: &Arc<Self>) {
        body_event_any(A_WAKE, self.uid as i64, 0);
        self.inner.wake_by_ref();
    }
}

/// body_event needs a current task; wakes issued during execution cleanup have none
fn body_event_any(tag: u32, a: i64, b: i64) {
    if in_task() {
        body_event(tag, a, b);
    }
}

fn in_task() -> bool {
    use shuttle_engine::runtime::execution::ExecutionState;
    ExecutionState::try_with(|s| s.try_current().is_some()).unwrap_or(false)
}

struct Captures(usize);
impl Drop for Captures {
    fn drop(&mut self) {
        // may run during execution cleanup, where there is no current task
        if in_task() {
            body_event(A_DROPPED, self.0 as i64, 0);
        }
    }
}

/// Logs every poll of a task's top-level future and substitutes the logging waker.
struct Logged<F: Future> {
    uid: usize,
    inner: Pin<Box<F>>,
    _cap: Captures,
}
impl<F: Future> Future for Logged<F> {
    type Output = F::Output;
    fn poll(mut self: Pin<&mut Self>, cx: &mut Context<'_>) -> Poll<F::Output> {
        body_event(A_POLL_START, self.uid as i64, 0);
        // a nested block_on shares its task's waker: attribute wakes to the task
        let lw: Waker = Arc::new(LogWaker { uid: self.uid % 100, inner: cx.waker().clone() }).into();
        let mut cx2 = Context::from_waker(&lw);
        let r = self.inner.as_mut().poll(&mut cx2);
        body_event(A_POLL_END, self.uid as i64, r.is_ready() as i64);
        r
    }
}

struct PendFut {
    w: Arc<AWorld>,
    slot: usize,
}
impl Future for PendFut {
    type Output = ();
    fn poll(self: Pin<&mut Self>, cx: &mut Context<'_>) -> Poll<()> {
        if *self.w.flags[self.slot].get() {
            body_event(A_INNER_POLL, self.slot as i64, 1);
            Poll::Ready(())
        } else {
            *self.w.wakers[self.slot].get() = Some(cx.waker().clone());
            body_event(A_INNER_POLL, self.slot as i64, 0);
            Poll::Pending
        }
    }
}

struct JoinNested {
    w: Arc<AWorld>,
    sa: usize,
    sb: usize,
    a_done: bool,
    b_done: bool,
}
impl Future for JoinNested {
    type Output = ();
    fn poll(mut self: Pin<&mut Self>, cx: &mut Context<'_>) -> Poll<()> {
        if !self.a_done {
            if *self.w.flags[self.sa].get() {
                self.a_done = true;
            } else {
                *self.w.wakers[self.sa].get() = Some(cx.waker().clone());
            }
            body_event(A_INNER_POLL, self.sa as i64, self.a_done as i64);
        }
        if !self.b_done {
            let w2 = self.w.clone();
            let sb = self.sb;
            sfuture::block_on(PendFut { w: w2, slot: sb });
            self.b_done = true;
        }
        // like join!: branch a is not polled a second time within this poll; if its wake arrived
        // while the poll was asleep in the nested block_on, the executor must poll the task again
        if self.a_done {
            Poll::Ready(())
        } else {
            Poll::Pending
        }
    }
}

struct JoinSync {
    w: Arc<AWorld>,
    sa: usize,
    sb: usize,
    a_done: bool,
    b_done: bool,
}
impl Future for JoinSync {
    type Output = ();
    fn poll(mut self: Pin<&mut Self>, cx: &mut Context<'_>) -> Poll<()> {
        if !self.a_done {
            if *self.w.flags[self.sa].get() {
                self.a_done = true;
            } else {
                *self.w.wakers[self.sa].get() = Some(cx.waker().clone());
            }
            body_event(A_INNER_POLL, self.sa as i64, self.a_done as i64);
        }
        if !self.b_done {
            let (m, cv) = &self.w.gates[self.sb];
            let mut g = m.lock().unwrap();
            while !*g {
                g = cv.wait(g).unwrap();
            }
            drop(g);
            self.b_done = true;
        }
        if self.a_done {
            Poll::Ready(())
        } else {
            Poll::Pending
        }
    }
}

struct SelfWake(bool);
impl Future for SelfWake {
    type Output = ();
    fn poll(mut self: Pin<&mut Self>, cx: &mut Context<'_>) -> Poll<()> {
        if self.0 {
            Poll::Ready(())
        } else {
            self.0 = true;
            // wake during the poll that returns Pending
            cx.waker().wake_by_ref();
            Poll::Pending
        }
    }
}

fn do_wake(w: &AWorld, slot: usize) {
    {
        let (m, cv) = &w.gates[slot];
        *m.lock().unwrap() = true;
        cv.notify_all();
    }
    *w.flags[slot].get() = true;
    if let Some(wk) = w.wakers[slot].get().take() {
        wk.wake();
    }
}

fn spawn_task(w: Arc<AWorld>, c: usize) -> JoinHandle<i64> {
    let fut = run_atask(w, c);
    sfuture::spawn(Logged { uid: c, inner: Box::pin(fut), _cap: Captures(c) })
}

fn run_atask(w: Arc<AWorld>, t: usize) -> Pin<Box<dyn Future<Output = i64> + Send>> {
    Box::pin(async move {
        let ops = w.prog.tasks[t].clone();
        let mut handles: BTreeMap<usize, JoinHandle<i64>> = BTreeMap::new();
        for op in ops {
            match op {
                AOp::Spawn(c) => {
                    let h = spawn_task(w.clone(), c);
                    body_event(A_SPAWNED, c as i64, 0);
                    handles.insert(c, h);
                }
                AOp::Wake(s) => do_wake(&w, s),
                AOp::Pend(s) => PendFut { w: w.clone(), slot: s }.await,
                AOp::PendSelfWake => SelfWake(false).await,
                AOp::Yield => sfuture::yield_now().await,
                AOp::Add => {
                    w.counter.fetch_add(1, shuttle::sync::atomic::Ordering::SeqCst);
                }
                AOp::Await(c) => {
                    if let Some(h) = handles.remove(&c) {
                        let r = h.await;
                        body_event(A_JOIN, c as i64, match r { Ok(v) => v, Err(JoinError::Cancelled) => -1 });
                    }
                }
                AOp::AwaitMoved(c) => {
                    if let Some(mut h) = handles.remove(&c) {
                        let first = std::future::poll_fn(|cx| Poll::Ready(Pin::new(&mut h).poll(cx))).await;
                        let r = match first {
                            Poll::Ready(r) => r,
                            Poll::Pending => sfuture::spawn(async move { h.await }).await.expect("helper task"),
                        };
                        body_event(A_JOIN, c as i64, match r { Ok(v) => v, Err(JoinError::Cancelled) => -1 });
                    }
                }
                AOp::AbortThenAwait(c) | AOp::AbortTwiceThenAwait(c) => {
                    if let Some(h) = handles.remove(&c) {
                        body_event(A_ABORT_CALL, c as i64, 0);
                        h.abort();
                        body_event(A_ABORT_RET, c as i64, 0);
                        if matches!(op, AOp::AbortTwiceThenAwait(_)) {
                            let ah = h.abort_handle();
                            ah.abort();
                            h.abort();
                        }
                        let r = h.await;
                        body_event(A_JOIN, c as i64, match r { Ok(v) => v, Err(JoinError::Cancelled) => -1 });
                    }
                }
                AOp::Detach(c) => {
                    if let Some(h) = handles.remove(&c) {
                        body_event(A_DETACH, c as i64, 0);
                        drop(h);
                    }
                }
                AOp::AbortThenDetach(c) => {
                    if let Some(h) = handles.remove(&c) {
                        body_event(A_ABORT_CALL, c as i64, 0);
                        h.abort();
                        body_event(A_ABORT_RET, c as i64, 0);
                        drop(h);
                    }
                }
                AOp::JoinNested(sa, sb) => JoinNested { w: w.clone(), sa, sb, a_done: false, b_done: false }.await,
                AOp::JoinSync(sa, sb) => JoinSync { w: w.clone(), sa, sb, a_done: false, b_done: false }.await,
                AOp::NestedBlockOn(s) => {
                    // a synchronous block_on inside a task: suspends this task while pending
                    let w2 = w.clone();
                    sfuture::block_on(Logged { uid: 100 + t, inner: Box::pin(PendFut { w: w2, slot: s }), _cap: Captures(100 + t) });
                }
            }
        }
        // handles never consumed are dropped here = detach at the very end
        for (c, h) in std::mem::take(&mut handles) {
            body_event(A_DETACH, c as i64, 0);
            drop(h);
        }
        body_event(A_COMPLETE, t as i64, 0);
        500 + t as i64
    })
}

fn body(prog: AProg) {
    let w = Arc::new(AWorld {
        flags: (0..prog.slots).map(|_| Slot::new(false)).collect(),
        wakers: (0..prog.slots).map(|_| Slot::new(None)).collect(),
        counter: shuttle::sync::atomic::AtomicUsize::new(0),
        gates: (0..prog.slots).map(|_| (shuttle::sync::Mutex::new(false), shuttle::sync::Condvar::new())).collect(),
        prog,
    });
    let v = sfuture::block_on(Logged { uid: 0, inner: Box::pin(run_atask(w.clone(), 0)), _cap: Captures(0) });
    body_event(A_MAIN_END, v, 0);
    // wakers stored in slots must not outlive the execution context in a way that matters: they are
    // plain wrappers around Shuttle wakers, dropping them is inert
}

/// Well-formed programs that cannot legitimately deadlock: per task [Spawn*, Wake*, (Pend|Yield|Add|SelfWake)*, child handling*];
/// aborted tasks contain no Wake and no Spawn.
pub fn gen_prog(rng: &mut Rng, max_tasks: usize) -> AProg {
    let n = rng.range(1, max_tasks);
    let mut parent = vec![0usize; n + 1];
    let mut children: Vec<Vec<usize>> = vec![vec![]; n + 1];
    let mut handling: Vec<u8> = vec![0; n + 1]; // how the parent treats this task
    for c in 1..=n {
        handling[c] = rng.below(6) as u8; // 0,1 await; 2 abort+await; 3 abort twice; 4 detach; 5 abort+detach
    }
    let aborted = |h: u8| matches!(h, 2 | 3 | 5);
    for c in 1..=n {
        // parents must be tasks that may spawn: not aborted ones
        let cands: Vec<usize> = (0..c).filter(|p| *p == 0 || !aborted(handling[*p])).collect();
        parent[c] = *rng.pick(&cands);
        children[parent[c]].push(c);
    }
    let slots = rng.range(1, 3);
    // one pend per slot in some task, wakes from tasks that certainly run their wake prefix
    let mut tasks: Vec<Vec<AOp>> = vec![vec![]; n + 1];
    let wakers_ok: Vec<usize> = (0..=n).filter(|t| *t == 0 || (!aborted(handling[*t]) && handling[*t] != 4 || handling[*t] == 4)).filter(|t| *t == 0 || !aborted(handling[*t])).collect();
    let mut pend_of: Vec<Option<usize>> = vec![None; slots];
    let mut wake_of: Vec<Vec<usize>> = vec![vec![]; slots];
    for s in 0..slots {
        let pt = rng.below(n + 1);
        pend_of[s] = Some(pt);
        let k = rng.range(1, 2);
        for _ in 0..k {
            wake_of[s].push(*rng.pick(&wakers_ok));
        }
    }
    for t in 0..=n {
        for c in &children[t] {
            tasks[t].push(AOp::Spawn(*c));
        }
        for s in 0..slots {
            for wt in &wake_of[s] {
                if *wt == t {
                    tasks[t].push(AOp::Wake(s));
                }
            }
        }
        let mid = rng.below(4);
        let mut pends: Vec<AOp> = (0..slots).filter(|s| pend_of[*s] == Some(t)).map(AOp::Pend).collect();
        for _ in 0..mid {
            pends.push(match rng.below(4) {
                0 => AOp::Yield,
                1 => AOp::Add,
                2 => AOp::PendSelfWake,
                _ => AOp::Yield,
            });
        }
        // shuffle the middle part
        for i in (1..pends.len()).rev() {
            pends.swap(i, rng.below(i + 1));
        }
        // two pends of one task: sometimes as join!(pend a, blocking wait for b)
        {
            let idx: Vec<usize> = pends.iter().enumerate().filter(|(_, p)| matches!(p, AOp::Pend(_))).map(|(i, _)| i).collect();
            if idx.len() >= 2 && rng.chance(1, 2) {
                let (AOp::Pend(sa), AOp::Pend(sb)) = (pends[idx[0]].clone(), pends[idx[1]].clone()) else { unreachable!() };
                pends[idx[0]] = if rng.chance(1, 2) { AOp::JoinNested(sa, sb) } else { AOp::JoinSync(sa, sb) };
                pends.remove(idx[1]);
            }
        }
        // occasionally pend through a nested block_on (only in main, which is a thread)
        if t == 0 && rng.chance(1, 4) {
            for p in pends.iter_mut() {
                if let AOp::Pend(s) = p {
                    *p = AOp::NestedBlockOn(*s);
                    break;
                }
            }
        }
        tasks[t].extend(pends);
        let mut cs = children[t].clone();
        for i in (1..cs.len()).rev() {
            cs.swap(i, rng.below(i + 1));
        }
        for c in cs {
            tasks[t].push(match handling[c] {
                0 => AOp::Await(c),
                1 => {
                    if rng.chance(1, 2) {
                        AOp::AwaitMoved(c)
                    } else {
                        AOp::Await(c)
                    }
                }
                2 => AOp::AbortThenAwait(c),
                3 => AOp::AbortTwiceThenAwait(c),
                4 => AOp::Detach(c),
                _ => AOp::AbortThenDetach(c),
            });
        }
    }
    AProg { tasks, slots, must_deadlock: false }
}

/// Terminating programs around a nested block_on inside a poll (wake for the outer pend arrives while
/// the task sleeps in the nested block_on, from the same or from different tasks, in either order).
pub fn nested_progs() -> Vec<AProg> {
    let mut v = nested_progs_base();
    // the same shapes with the second wait blocking in a synchronous primitive
    for p in nested_progs_base() {
        let tasks = p.tasks.iter().map(|t| t.iter().map(|o| if let AOp::JoinNested(a, b) = o { AOp::JoinSync(*a, *b) } else { o.clone() }).collect()).collect();
        v.push(AProg { tasks, slots: p.slots, must_deadlock: false });
    }
    v
}

fn nested_progs_base() -> Vec<AProg> {
    vec![
        AProg { tasks: vec![vec![AOp::Spawn(1), AOp::Wake(0), AOp::Wake(1), AOp::Await(1)], vec![AOp::JoinNested(0, 1)]], slots: 2, must_deadlock: false },
        AProg { tasks: vec![vec![AOp::Spawn(1), AOp::Wake(1), AOp::Wake(0), AOp::Await(1)], vec![AOp::JoinNested(0, 1)]], slots: 2, must_deadlock: false },
        AProg {
            tasks: vec![vec![AOp::Spawn(1), AOp::Spawn(2), AOp::Spawn(3), AOp::Await(1), AOp::Await(2), AOp::Await(3)], vec![AOp::JoinNested(0, 1)], vec![AOp::Wake(0)], vec![AOp::Yield, AOp::Wake(1)]],
            slots: 2,
            must_deadlock: false,
        },
        AProg {
            tasks: vec![vec![AOp::Spawn(1), AOp::Spawn(2), AOp::Yield, AOp::Wake(1), AOp::Await(1), AOp::Await(2)], vec![AOp::Add, AOp::JoinNested(0, 1), AOp::Yield], vec![AOp::Yield, AOp::Wake(0)]],
            slots: 2,
            must_deadlock: false,
        },
    ]
}

/// A JoinHandle that is polled by one task and completed while another task awaits it.
pub fn moved_handle_progs() -> Vec<AProg> {
    vec![
        AProg { tasks: vec![vec![AOp::Spawn(1), AOp::AwaitMoved(1)], vec![AOp::Yield, AOp::Add, AOp::Yield]], slots: 1, must_deadlock: false },
        AProg { tasks: vec![vec![AOp::Spawn(1), AOp::Spawn(2), AOp::AwaitMoved(1), AOp::Await(2)], vec![AOp::Pend(0)], vec![AOp::Yield, AOp::Wake(0)]], slots: 1, must_deadlock: false },
        AProg { tasks: vec![vec![AOp::Spawn(1), AOp::Await(1)], vec![AOp::Spawn(2), AOp::Yield, AOp::AwaitMoved(2)], vec![AOp::Yield, AOp::Yield, AOp::Add]], slots: 1, must_deadlock: false },
    ]
}

pub fn deadlock_progs() -> Vec<AProg> {
    vec![
        // awaited task pends on a slot nobody wakes
        AProg { tasks: vec![vec![AOp::Spawn(1), AOp::Await(1)], vec![AOp::Pend(0)]], slots: 1, must_deadlock: true },
        // main itself pends forever; a detached task spins a little and ends
        AProg { tasks: vec![vec![AOp::Spawn(1), AOp::Detach(1), AOp::Pend(0)], vec![AOp::Yield, AOp::Yield]], slots: 1, must_deadlock: true },
        // two tasks pending, both awaited
        AProg { tasks: vec![vec![AOp::Spawn(1), AOp::Spawn(2), AOp::Await(1), AOp::Await(2)], vec![AOp::Pend(0)], vec![AOp::Yield, AOp::Pend(1)]], slots: 2, must_deadlock: true },
    ]
}

pub fn check_log(prog: &AProg, log: &ExecLog, term: &Term) -> Vec<(String, String)> {
    let mut out: Vec<(String, String)> = vec![];
    let evs: Vec<(usize, usize, u32, i64, i64)> = log
        .events
        .iter()
        .enumerate()
        .filter_map(|(i, e)| if let Ev::Body { task, tag, a, b } = e { Some((i, *task, *tag, *a, *b)) } else { None })
        .collect();
    let main_end = evs.iter().find(|e| e.2 == A_MAIN_END).map(|e| e.0);
    let uids: BTreeSet<i64> = evs.iter().filter(|e| e.2 == A_POLL_START && e.3 < 100).map(|e| e.3).collect();
    for uid in uids {
        let mine: Vec<&(usize, usize, u32, i64, i64)> = evs.iter().filter(|e| e.3 == uid && matches!(e.2, A_POLL_START | A_POLL_END | A_WAKE)).collect();
        // (B) no phantom poll: between a pending return and the next poll there must be a wake that
        // came at or after the start of the pending poll
        let mut last_start: Option<usize> = None;
        let mut pending_since: Option<usize> = None; // index of the POLL_START of the poll that returned Pending
        let mut woken = false;
        let mut ready = false;
        let mut unwoken_polls = 0;
        for e in &mine {
            match e.2 {
                A_POLL_START => {
                    if ready {
                        out.push(("polled-after-completion".into(), format!("task {uid} was polled again after its future had completed")));
                    }
                    // The executor consumes a wake that arrived while the task slept twice (once to
                    // unblock it, once more through the stale `woken` flag), so one re-poll without
                    // a fresh wake is tolerated; a second one means a never-woken pending future is
                    // treated as able to progress.
                    if pending_since.is_some() && !woken {
                        unwoken_polls += 1;
                        if unwoken_polls >= 2 {
                            out.push(("polled-without-wake".into(), format!("task {uid} was polled again (event {}) although its waker had not been invoked since before its previous two polls", e.0)));
                        }
                    } else {
                        unwoken_polls = 0;
                    }
                    last_start = Some(e.0);
                    woken = false;
                    pending_since = None;
                }
                A_POLL_END => {
                    if e.4 == 1 {
                        ready = true;
                    } else {
                        pending_since = last_start;
                    }
                }
                _ => {
                    // wake at or after the latest poll began
                    woken = true;
                }
            }
        }
        // (A) no lost wake-up: a task left pending with a wake since its last poll began must not be
        // stuck at the end of a failed execution
        if pending_since.is_some() && woken && !ready {
            let aborted = evs.iter().any(|e| e.2 == A_ABORT_RET && e.3 == uid);
            match term {
                Term::Deadlock(_) | Term::StepBound => {
                    if !aborted {
                        out.push((
                            "lost-wakeup".into(),
                            format!("the execution ended {:?} although task {uid}'s waker was invoked after its last poll began and it was never polled again", term),
                        ));
                    }
                }
                _ => {}
            }
        }
    }
    // joins
    for e in evs.iter().filter(|e| e.2 == A_JOIN) {
        let c = e.3;
        let complete = evs.iter().find(|x| x.2 == A_COMPLETE && x.3 == c).map(|x| x.0);
        let abort_call = evs.iter().find(|x| x.2 == A_ABORT_CALL && x.3 == c).map(|x| x.0);
        let abort_ret = evs.iter().find(|x| x.2 == A_ABORT_RET && x.3 == c).map(|x| x.0);
        if e.4 >= 0 {
            if e.4 != 500 + c {
                out.push(("join-wrong-output".into(), format!("awaiting task {c} yielded {}, its future returned {}", e.4, 500 + c)));
            }
            match complete {
                Some(ci) if ci < e.0 => {}
                _ => out.push(("join-before-completion".into(), format!("awaiting task {c} yielded an output before the task completed"))),
            }
        } else {
            // Cancelled iff an abort took effect before completion
            if abort_call.is_none() || abort_call.unwrap() > e.0 {
                out.push(("cancelled-without-abort".into(), format!("awaiting task {c} yielded Cancelled but abort was never called on it")));
            }
            if let Some(ci) = complete {
                if abort_call.map(|a| ci < a).unwrap_or(true) {
                    out.push(("cancelled-although-completed".into(), format!("task {c} completed before abort was called, yet its JoinHandle yielded Cancelled")));
                }
            }
            // the future was dropped before Cancelled was delivered
            let dropped = evs.iter().find(|x| x.2 == A_DROPPED && x.3 == c).map(|x| x.0);
            match dropped {
                Some(d) if d < e.0 => {}
                _ => out.push(("cancelled-future-not-dropped".into(), format!("task {c} was reported Cancelled but its future (captures) had not been dropped"))),
            }
        }
        let _ = abort_ret;
    }
    // after an abort returned, the aborted future takes no further steps
    for e in evs.iter().filter(|e| e.2 == A_ABORT_RET) {
        let c = e.3;
        if let Some(p) = evs.iter().find(|x| x.2 == A_POLL_START && x.3 == c && x.0 > e.0) {
            out.push(("aborted-task-polled".into(), format!("task {c} was polled (event {}) after abort() on it had returned", p.0)));
        }
    }
    // a task whose output was promised (completed, not aborted before) is delivered exactly once: one join event at most
    let mut joins: BTreeMap<i64, usize> = BTreeMap::new();
    for e in evs.iter().filter(|e| e.2 == A_JOIN) {
        *joins.entry(e.3).or_insert(0) += 1;
    }
    for (c, n) in joins {
        if n > 1 {
            out.push(("output-delivered-twice".into(), format!("task {c}'s result was delivered {n} times")));
        }
    }
    // detach does not cancel: captures of a detached, never aborted task are not dropped before it
    // completes, as long as main is still running
    for e in evs.iter().filter(|e| e.2 == A_DETACH) {
        let c = e.3;
        let aborted = evs.iter().any(|x| x.2 == A_ABORT_CALL && x.3 == c);
        if aborted {
            continue;
        }
        let complete = evs.iter().find(|x| x.2 == A_COMPLETE && x.3 == c).map(|x| x.0);
        let dropped = evs.iter().find(|x| x.2 == A_DROPPED && x.3 == c).map(|x| x.0);
        if let (Some(d), Some(me)) = (dropped, main_end) {
            if d < me && complete.map(|ci| d < ci).unwrap_or(true) {
                out.push(("detached-task-cancelled".into(), format!("task {c} was only detached (JoinHandle dropped), yet its future was destroyed before completing while main was still running")));
            }
        }
    }
    // termination
    if prog.must_deadlock {
        if !matches!(term, Term::Deadlock(_)) {
            out.push(("pending-futures-not-a-deadlock".into(), format!("every awaited future is pending with no waker invoked, but the execution ended {:?}", term)));
        }
    } else {
        match term {
            Term::Pass => {}
            Term::Deadlock(ids) => out.push(("async-program-deadlocked".into(), format!("a program in which every wake is eventually issued was reported deadlocked: {:?}", ids))),
            Term::StepBound => out.push(("async-program-hangs".into(), "a terminating async program ran into the step bound".into())),
            Term::Panic(m) => out.push(("async-program-panicked".into(), format!("panic: {}", m.chars().take(200).collect::<String>()))),
        }
    }
    out
}

pub fn one_prog(prog: &AProg, k: usize, seed: u64, iters: usize, acc: &mut Acc) {
    let wit = |extra: serde_json::Value| json!({"scheduler": sched_name(k), "sched_seed": seed, "program": format!("{:?}", prog.tasks), "detail": extra});
    let mut left = iters;
    let mut round = 0;
    while left > 0 && round < 8 {
        let collected: Rc<RefCell<Vec<rec::Finished>>> = Rc::new(RefCell::new(vec![]));
        let c2 = collected.clone();
        let mut cfg = rec::base_config();
        cfg.max_steps = shuttle::MaxSteps::FailAfter(3_000);
        let p = prog.clone();
        let rr = rec::run_streamed(make_sched(k, seed.wrapping_add(round), left), cfg, move || body(p.clone()), move |f| c2.borrow_mut().push(f));
        let execs = std::mem::take(&mut *collected.borrow_mut());
        let n = execs.len();
        if let Term::Panic(m) = &rr.term {
            if m.contains("did not exercise any concurrency") {
                return;
            }
        }
        for (i, f) in execs.iter().enumerate() {
            acc.evaluations += 1;
            if rec::nontrivial(&f.log) {
                acc.distinct.insert(rec::hash_choices(&f.log));
            }
            acc.add("polls_checked", f.log.events.iter().filter(|e| matches!(e, Ev::Body { tag: A_POLL_START, .. })).count() as u64);
            acc.add("wakes_observed", f.log.events.iter().filter(|e| matches!(e, Ev::Body { tag: A_WAKE, .. })).count() as u64);
            for (sig, what) in rec::contract_check(&f.log, Some(&f.runtime_schedule)) {
                acc.violation(&format!("C08:{sig}"), what, wit(json!({"iteration": i})));
            }
            let term = if i + 1 == n { rr.term.clone() } else { Term::Pass };
            for (sig, what) in check_log(prog, &f.log, &term) {
                let events: Vec<String> = f
                    .log
                    .events
                    .iter()
                    .enumerate()
                    .filter_map(|(i, e)| match e {
                        Ev::Body { task, tag, a, b } => Some(format!("{i}: task{task} {} a={a} b={b}", match *tag {
                            A_POLL_START => "POLL_START",
                            A_POLL_END => "POLL_END",
                            A_WAKE => "WAKE",
                            A_COMPLETE => "COMPLETE",
                            A_DROPPED => "DROPPED",
                            A_JOIN => "JOIN",
                            A_ABORT_CALL => "ABORT_CALL",
                            A_ABORT_RET => "ABORT_RET",
                            A_DETACH => "DETACH",
                            A_MAIN_END => "MAIN_END",
                            A_INNER_POLL => "INNER_POLL",
                            A_SPAWNED => "SPAWNED",
                            _ => "?",
                        })),
                        Ev::Decision(d) => Some(format!("{i}: decision -> {:?}", d.choice)),
                        _ => None,
                    })
                    .collect();
                acc.violation(&sig, what, wit(json!({"choices": rec::choice_seq(&f.log), "events": events})));
            }
        }
        left = left.saturating_sub(n.max(1));
        round += 1;
        if rr.term == Term::Pass {
            break;
        }
    }
    if acc.samples.len() < 3 {
        acc.samples.push(json!({"scheduler": sched_name(k), "program": format!("{:?}", prog.tasks), "must_deadlock": prog.must_deadlock}));
    }
}

pub fn run(r: &mut Report) {
    let mut rng = Rng::new(r.seed ^ 0xC17);
    let nprogs = if r.quick() { 800 } else { 3000 };
    let iters = if r.quick() { 100 } else { 400 };
    let mut items: Vec<(AProg, usize, u64)> = vec![];
    for p in deadlock_progs() {
        for k in [0usize, 2, 6] {
            items.push((p.clone(), k, rng.next()));
        }
    }
    for p in moved_handle_progs() {
        for k in [0usize, 2, 5, 6] {
            items.push((p.clone(), k, rng.next()));
        }
    }
    for p in nested_progs() {
        for k in [0usize, 2, 5, 6] {
            items.push((p.clone(), k, rng.next()));
        }
    }
    for i in 0..nprogs {
        let p = gen_prog(&mut rng, 1 + i % 5);
        for k in [0usize, 2, 5, 6] {
            if r.quick() && (i + k) % 2 == 1 {
                continue;
            }
            items.push((p.clone(), k, rng.next()));
        }
    }
    let accs = oracle::parallel(items.len(), oracle::workers(), |i, acc| {
        let (p, k, seed) = &items[i];
        let it = if p.must_deadlock { 8 } else { iters };
        one_prog(p, *k, *seed, it, acc);
    });
    for a in accs {
        a.merge_into(r);
    }
    r.rule = "generated async programs (1-6 tasks in a spawn tree; per task: spawns, wakes of manual futures in other tasks, pends on hand-written futures whose wakers are held in shared slots, self-wakes during poll, yields, nested block_on, join of a pend with a blocking wait inside one poll; each child awaited / aborted then awaited / aborted twice / detached / aborted then detached) plus all-pending programs; every task's top-level future is wrapped so that every poll and every invocation of its waker (by user code, JoinHandle completion, yield, semaphores) is logged; per execution: no poll without a wake since the previous poll began, a wake at/after the last poll began is followed by another poll (else a deadlock/step-bound ending is a lost wake-up), JoinHandle yields the task's own output after completion or Cancelled only after an abort call with the future already dropped, no poll after abort() returned, output delivered once, detached tasks are not destroyed while main runs, terminating programs pass and all-pending ones are reported as deadlocks. evaluations = executions; distinct_nontrivial = distinct choice sequences with a real choice".into();
}
