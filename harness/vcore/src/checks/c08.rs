//! C08: the runtime honours the Scheduler interface contract. The contract checker itself lives in
//! rec::contract_check and runs on every execution of every other check as well; this check drives
//! it on purpose-built workloads: all scheduler kinds, yields, stop-at-k schedulers, transparent
//! wrappers sandwiched between two recorders.
use crate::explore::StopAt;
use crate::gen::{self, Family};
use crate::oracle::{self, Acc};
use crate::prog::*;
use crate::rec::{self, DecisionRec, Ev, Term};
use crate::util::{Report, Rng};
use serde_json::json;
use shuttle::scheduler::*;
use shuttle_engine::scheduler::metrics::MetricsScheduler;
use std::cell::RefCell;
use std::rc::Rc;
use std::sync::Arc;

use super::c01::{make_sched, sched_name};

fn body_of(prog: &Prog) -> (impl Fn() + Send + Sync + Clone + 'static, Arc<std::sync::Mutex<Option<Arc<World>>>>) {
    let slot: Arc<std::sync::Mutex<Option<Arc<World>>>> = Arc::new(std::sync::Mutex::new(None));
    let p2 = prog.clone();
    let s2 = slot.clone();
    (move || run_prog(&p2, false, &s2), slot)
}

/// Innermost recorder of a sandwich: logs what the wrapped scheduler was asked and answered.
pub struct Tap<S: Scheduler> {
    inner: S,
    log: Rc<RefCell<Vec<TapEv>>>,
}

#[derive(Clone, Debug, PartialEq, Eq)]
pub enum TapEv {
    New(Option<u64>),
    Dec(DecisionRec),
    Draw(u64),
}

impl<S: Scheduler> Scheduler for Tap<S> {
    fn new_execution(&mut self) -> Option<Schedule> {
        let r = self.inner.new_execution();
        self.log.borrow_mut().push(TapEv::New(r.as_ref().map(|s| s.seed)));
        r
    }
    fn next_task(&mut self, runnable: &[&Task], current: Option<TaskId>, y: bool) -> Option<TaskId> {
        let offered = runnable.iter().map(|t| (usize::from(t.id()), rec::task_flags(t))).collect();
        let c = self.inner.next_task(runnable, current, y);
        self.log.borrow_mut().push(TapEv::Dec(DecisionRec {
            offered,
            current: current.map(usize::from),
            yielding: y,
            choice: c.map(usize::from),
        }));
        c
    }
    fn next_u64(&mut self) -> u64 {
        let v = self.inner.next_u64();
        self.log.borrow_mut().push(TapEv::Draw(v));
        v
    }
}

fn outer_view(execs: &[rec::ExecLog], ended_with_none: bool) -> Vec<TapEv> {
    let mut v = vec![];
    for l in execs {
        v.push(TapEv::New(l.seed));
        for e in &l.events {
            match e {
                Ev::Decision(d) => v.push(TapEv::Dec(d.clone())),
                Ev::Draw(x) => v.push(TapEv::Draw(*x)),
                _ => {}
            }
        }
    }
    if ended_with_none {
        v.push(TapEv::New(None));
    }
    v
}

fn contract(acc: &mut Acc, f: &rec::Finished, wit: &dyn Fn(serde_json::Value) -> serde_json::Value) {
    acc.evaluations += 1;
    acc.add("decisions_checked", rec::choice_seq(&f.log).len() as u64);
    if rec::nontrivial(&f.log) {
        acc.distinct.insert(rec::hash_choices(&f.log));
    }
    if f.log.events.iter().any(|e| matches!(e, Ev::Decision(d) if d.yielding)) {
        acc.add("executions_with_yielding_flag", 1);
    }
    if f.log.events.iter().any(|e| matches!(e, Ev::Decision(d) if d.offered.iter().any(|o| o.1 & rec::F_SPURIOUS != 0))) {
        acc.add("executions_offering_spurious_task", 1);
    }
    for (sig, what) in rec::contract_check(&f.log, Some(&f.runtime_schedule)) {
        acc.violation(&sig, what, wit(json!(null)));
    }
}

pub fn check_prog(prog: &Prog, k: usize, seed: u64, iters: usize, acc: &mut Acc, label: &str) {
    let wit = |extra: serde_json::Value| json!({"family": label, "scheduler": sched_name(k), "sched_seed": seed, "program": prog.describe(), "detail": extra});
    let mut cfg = rec::base_config();
    cfg.max_steps = shuttle::MaxSteps::FailAfter(5_000);

    // (a) plain run under scheduler kind k
    let execs = {
        let (body, slot) = body_of(prog);
        let collected: Rc<RefCell<Vec<rec::Finished>>> = Rc::new(RefCell::new(vec![]));
        let c2 = collected.clone();
        let _rr = rec::run_streamed(make_sched(k, seed, iters), cfg.clone(), body, move |f| {
            if let Some(w) = slot.lock().unwrap().take() {
                w.forget_endpoints();
            }
            c2.borrow_mut().push(f);
        });
        let v = std::mem::take(&mut *collected.borrow_mut());
        v
    };
    for f in &execs {
        contract(acc, f, &wit);
    }
    if acc.samples.len() < 2 {
        if let Some(f) = execs.first() {
            acc.samples.push(json!({"family": label, "scheduler": sched_name(k), "program": prog.describe(), "choices": rec::choice_seq(&f.log)}));
        }
    }

    // (b) sandwich: Rec(outer) . Metrics . Tap(inner) . S  -- inner and outer views must be identical
    {
        let (body, slot) = body_of(prog);
        let tap_log = Rc::new(RefCell::new(vec![]));
        let inner = Tap {
            inner: make_sched(k, seed, iters),
            log: tap_log.clone(),
        };
        let wrapped = MetricsScheduler::new(inner);
        let collected: Rc<RefCell<Vec<rec::ExecLog>>> = Rc::new(RefCell::new(vec![]));
        let c2 = collected.clone();
        let rr = rec::run_streamed(wrapped, cfg.clone(), body, move |f| {
            if let Some(w) = slot.lock().unwrap().take() {
                w.forget_endpoints();
            }
            c2.borrow_mut().push(f.log);
        });
        acc.add("sandwich_runs", 1);
        let outer = outer_view(&collected.borrow(), rr.term == Term::Pass);
        let inner = tap_log.borrow().clone();
        if outer != inner {
            let i = outer.iter().zip(inner.iter()).position(|(a, b)| a != b).unwrap_or(outer.len().min(inner.len()));
            acc.violation(
                "wrapper-not-transparent:metrics",
                format!("MetricsScheduler changed what passes through it at call {i}: outside {:?}, inside {:?}", outer.get(i), inner.get(i)),
                wit(json!(null)),
            );
        }
    }
    // (b2) nondeterminism checker: its recording pass must hand the inner scheduler's decisions out unchanged
    if k % 8 == 0 {
        let (body, slot) = body_of(prog);
        let tap_log = Rc::new(RefCell::new(vec![]));
        let inner = Tap {
            inner: make_sched(k, seed, iters.min(6)),
            log: tap_log.clone(),
        };
        let wrapped = UncontrolledNondeterminismCheckScheduler::new(inner);
        let collected: Rc<RefCell<Vec<rec::ExecLog>>> = Rc::new(RefCell::new(vec![]));
        let c2 = collected.clone();
        let rr = rec::run_streamed(wrapped, cfg.clone(), body, move |f| {
            if let Some(w) = slot.lock().unwrap().take() {
                w.forget_endpoints();
            }
            c2.borrow_mut().push(f.log);
        });
        acc.add("sandwich_runs", 1);
        if rr.term == Term::Pass {
            // executions alternate record / replay; compare the recording ones with the tap
            let logs = collected.borrow();
            let rec_logs: Vec<rec::ExecLog> = logs.iter().step_by(2).cloned().collect();
            let mut outer = outer_view(&rec_logs, true);
            // the wrapper substitutes a dummy seed for replays but passes the real one when recording
            let inner = tap_log.borrow().clone();
            // drop New events for comparison of decisions and draws only
            outer.retain(|e| !matches!(e, TapEv::New(_)));
            let inner_d: Vec<TapEv> = inner.into_iter().filter(|e| !matches!(e, TapEv::New(_))).collect();
            if outer != inner_d {
                let i = outer.iter().zip(inner_d.iter()).position(|(a, b)| a != b).unwrap_or(outer.len().min(inner_d.len()));
                acc.violation(
                    "wrapper-not-transparent:nondeterminism-check",
                    format!("the nondeterminism checker changed a decision while recording, at call {i}: outside {:?}, inside {:?}", outer.get(i), inner_d.get(i)),
                    wit(json!(null)),
                );
            }
            // and every replay execution must equal the recording before it
            for pair in logs.chunks(2) {
                if pair.len() == 2 && rec::choice_seq(&pair[0]) != rec::choice_seq(&pair[1]) {
                    acc.violation("nondeterminism-check-replay-differs", "the checker's replay pass made different choices than its recording pass".into(), wit(json!(null)));
                }
            }
        }
    }

    // (c) returning None from next_task at decision j ends the execution without failure
    if let Some(f) = execs.first() {
        let n = rec::choice_seq(&f.log).iter().filter(|c| **c < u32::MAX - 1).count();
        let mut js: Vec<usize> = vec![0, 1, 2, n / 2, n.saturating_sub(1)];
        js.sort();
        js.dedup();
        for j in js {
            if j >= n {
                continue;
            }
            let (body, slot) = body_of(prog);
            let collected: Rc<RefCell<Vec<rec::Finished>>> = Rc::new(RefCell::new(vec![]));
            let c2 = collected.clone();
            let sched = StopAt::new(make_sched(k, seed, 1), j);
            let rr = rec::run_streamed(sched, cfg.clone(), body, move |f| {
                // an abandoned execution still owns its world (tasks are torn down by the runtime)
                let _ = slot.lock().unwrap().take().map(std::mem::forget);
                c2.borrow_mut().push(f);
            });
            acc.add("stop_at_runs", 1);
            if rr.term != Term::Pass {
                acc.violation("none-causes-failure", format!("scheduler returned None at decision {j} and the run failed: {:?}", rr.term), wit(json!({"stop_at": j})));
            }
            let fs = collected.borrow();
            if rr.term == Term::Pass && rr.iterations != Some(fs.len()) {
                acc.violation("run-count-mismatch", format!("Runner::run returned {:?}, body ran {} times", rr.iterations, fs.len()), wit(json!({"stop_at": j})));
            }
            for f in fs.iter() {
                contract(acc, f, &wit);
                let decs = f.log.events.iter().filter(|e| matches!(e, Ev::Decision(_))).count();
                if decs != j + 1 {
                    acc.violation("none-not-final", format!("stop at decision {j}: the execution saw {decs} decisions"), wit(json!({"stop_at": j})));
                }
            }
        }
    }
}

pub fn run(r: &mut Report) {
    let mut rng = Rng::new(r.seed ^ 0xC08);
    let per_family = if r.quick() { 25 } else { 60 };
    let iters = if r.quick() { 40 } else { 100 };
    let mut items: Vec<(String, Prog, usize, u64)> = vec![];
    // yield-heavy hand-written programs
    {
        let tasks = vec![
            vec![Op::Spawn(1), Op::Spawn(2), Op::Yield, Op::Load(0), Op::Yield, Op::Join(1), Op::Join(2)],
            vec![Op::Yield, Op::Store(0, 1), Op::Yield],
            vec![Op::Park, Op::Yield],
        ];
        let p = Prog { objs: vec![Obj::Atomic(0)], tasks, senders: vec![], receivers: vec![] };
        for k in 0..8 {
            items.push(("hand:yields+park".into(), p.clone(), k, rng.next()));
        }
    }
    for (name, p) in gen::corpus() {
        let k = items.len();
        items.push((format!("corpus:{name}"), p, k, rng.next()));
    }
    let mut fams = gen::ALL_FAMILIES.to_vec();
    fams.push(Family::Reentrant);
    for f in fams {
        for i in 0..per_family {
            let mut g = rng.fork();
            let mut p = gen::generate(f, &mut g, 1 + i % 2);
            // sprinkle yields
            for t in 0..p.tasks.len() {
                if g.chance(1, 3) {
                    let pos = g.below(p.tasks[t].len() + 1);
                    p.tasks[t].insert(pos, Op::Yield);
                }
            }
            for k in 0..8 {
                if (i + k) % 3 == 0 || !r.quick() {
                    items.push((format!("{f:?}/{i}"), p.clone(), k, rng.next()));
                }
            }
        }
    }
    let accs = oracle::parallel(items.len(), oracle::workers(), |i, acc| {
        let (label, p, k, seed) = &items[i];
        check_prog(p, *k, *seed, iters, acc, label);
    });
    for a in accs {
        a.merge_into(r);
    }
    r.rule = "programs of every family (with yields and parks inserted) run under random, PCT, URW, DFS and round-robin schedulers; every next_task/next_u64/new_execution call checked by the contract checker: non-empty ascending distinct unfinished offered list, each offered task runnable or spuriously wakeable, offered list == every able task of the runtime's own task table (hook), current == previously chosen task, is_yielding ⇔ yield request by current since the last decision (hook), user code between decisions only from the chosen task, runtime's recorded schedule == wrapper's view; MetricsScheduler and the nondeterminism checker sandwiched between two recorders must be transparent; StopAt(j) for several j: None ends the execution at once without failure. evaluations = executions checked; distinct_nontrivial = distinct choice sequences with a real choice".into();
    r.assumptions = vec!["AnnotationScheduler (feature `annotation`, process singleton) and the PortfolioRunner stop wrapper are exercised in C12/C13 child processes only".into()];
}
