//! C02 add-on: observer methods that the workload language does not have (they need scoped threads or
//! async tasks): `ScopedJoinHandle::is_finished`, `future::JoinHandle::is_finished`,
//! `future::AbortHandle::is_finished`. Each reads state another task changes (its termination), so a
//! choice point must precede it.
//!
//! Program: child: r = a.load(); <finish>.   main: a.store(1); f = h.is_finished().
//! Sequentially consistent interleavings of {load, finish} with {store, is_finished} give all four
//! outcomes (r, f) ∈ {0,1} × {false,true}; (1, true) needs "store; load; finish; is_finished", i.e. the
//! scheduler must be able to run the child between main's store and its is_finished.
use crate::explore;
use crate::oracle::Acc;
use crate::rec::{self, body_event, Ev, Term};
use serde_json::json;
use shuttle::sync::atomic::{AtomicUsize, Ordering};
use std::cell::RefCell;
use std::collections::BTreeSet;
use std::rc::Rc;
use std::sync::Arc;

#[derive(Clone, Copy, Debug)]
pub enum Kind {
    ScopedThread,
    FutureJoinHandle,
    FutureAbortHandle,
}

const T_OUT: u32 = 7300;

fn body(kind: Kind) {
    let a = Arc::new(AtomicUsize::new(0));
    match kind {
        Kind::ScopedThread => {
            let a2 = a.clone();
            shuttle::thread::scope(|s| {
                let h = s.spawn(move || a2.load(Ordering::SeqCst));
                a.store(1, Ordering::SeqCst);
                let f = h.is_finished();
                let r = h.join().unwrap();
                body_event(T_OUT, r as i64, f as i64);
            });
        }
        Kind::FutureJoinHandle | Kind::FutureAbortHandle => {
            let a2 = a.clone();
            let h = shuttle::future::spawn(async move { a2.load(Ordering::SeqCst) });
            a.store(1, Ordering::SeqCst);
            let f = match kind {
                Kind::FutureJoinHandle => h.is_finished(),
                _ => h.abort_handle().is_finished(),
            };
            let r = shuttle::future::block_on(h).unwrap();
            body_event(T_OUT, r as i64, f as i64);
        }
    }
}

pub fn kinds() -> Vec<Kind> {
    vec![Kind::ScopedThread, Kind::FutureJoinHandle, Kind::FutureAbortHandle]
}

pub fn check(kind: Kind, acc: &mut Acc) {
    let seen: Rc<RefCell<BTreeSet<(i64, i64)>>> = Rc::new(RefCell::new(BTreeSet::new()));
    let bad: Rc<RefCell<Vec<String>>> = Rc::new(RefCell::new(vec![]));
    let n = Rc::new(RefCell::new(0u64));
    let hashes: Rc<RefCell<Vec<u64>>> = Rc::new(RefCell::new(vec![]));
    let (s2, b2, n2, h2) = (seen.clone(), bad.clone(), n.clone(), hashes.clone());
    let out = explore::enumerate(move || body(kind), rec::base_config(), 50_000, move |f, term| {
        *n2.borrow_mut() += 1;
        if rec::nontrivial(&f.log) {
            h2.borrow_mut().push(rec::hash_choices(&f.log));
        }
        if term != Term::Pass {
            b2.borrow_mut().push(format!("{:?}", term));
        }
        for e in &f.log.events {
            if let Ev::Body { tag: T_OUT, a, b, .. } = e {
                s2.borrow_mut().insert((*a, *b));
            }
        }
    });
    acc.evaluations += *n.borrow();
    acc.distinct.extend(hashes.borrow().iter().copied());
    acc.add("observer_scenarios", 1);
    let name = match kind {
        Kind::ScopedThread => "ScopedJoinHandle::is_finished",
        Kind::FutureJoinHandle => "future::JoinHandle::is_finished",
        Kind::FutureAbortHandle => "future::AbortHandle::is_finished",
    };
    if let Some(t) = bad.borrow().first() {
        acc.violation("observer-program-failed", format!("{name}: a terminating program ended {t}"), json!({"kind": format!("{kind:?}")}));
        return;
    }
    if !out.complete {
        acc.notes.push(format!("{name}: enumeration incomplete"));
        return;
    }
    let seen = seen.borrow();
    let all: Vec<(i64, i64)> = vec![(0, 0), (0, 1), (1, 0), (1, 1)];
    let missing: Vec<&(i64, i64)> = all.iter().filter(|o| !seen.contains(o)).collect();
    if let Some(extra) = seen.iter().find(|o| !all.contains(o)) {
        acc.violation("observer-outcome-not-allowed", format!("{name}: outcome {:?} is not sequentially consistent", extra), json!({"kind": format!("{kind:?}")}));
    }
    if !missing.is_empty() {
        acc.violation(
            &format!("missing-choice-point:{name}"),
            format!(
                "child: r = a.load(); finish / main: a.store(1); f = h.is_finished(): outcome(s) (r, f) = {:?} allowed by a sequentially consistent interleaving were never produced although the whole choice tree ({} schedules) was enumerated; observed {:?}",
                missing,
                *n.borrow(),
                seen
            ),
            json!({"kind": format!("{kind:?}"), "observed": format!("{:?}", seen)}),
        );
    }
}
