//! Sanitizer tier: small deterministic slices of the workloads that reach Shuttle's `unsafe` code
//! (stack recycling and force-unwinding of abandoned executions, lifetime-extended thread-local and
//! lazy-static references, the raw-pointer task list handed to schedulers, the schedule codec), run
//! in one process on one thread so that valgrind memcheck / AddressSanitizer can watch them.
use crate::explore::StopAt;
use crate::rec::{self, Term};
use crate::util::{Report, Rng};
#[allow(unused_imports)]
use crate::rec::Finished;
use serde_json::json;
use shuttle::scheduler::*;
use std::process::Command;

use super::c01::make_sched;

/// child entry: `verif sanit <scenario> <n>`; prints `SANIT-DONE <executions>` at the end
pub fn child(args: &[String]) {
    let scenario = args.first().map(|s| s.as_str()).unwrap_or("abandon");
    let n: usize = args.get(1).and_then(|s| s.parse().ok()).unwrap_or(50);
    let mut done = 0usize;
    match scenario {
        // executions cut short with tasks mid critical section / holding instrumented values /
        // thread-locals alive, followed by complete ones that recycle the stacks
        "abandon" => {
            for variant in 0..4usize {
                for k in [0usize, 2, 6] {
                    for stop in [1usize, 3, 6, 9, 14, 20] {
                        let sched = StopAt::new(make_sched(k, 11 + stop as u64, n / 10 + 1), stop);
                        let rr = rec::run_streamed(sched, rec::base_config(), move || super::c14::body(variant), |_| {});
                        done += 1;
                        let _ = rr;
                    }
                    for bound in [2usize, 5, 11, 23] {
                        let mut cfg = rec::base_config();
                        cfg.max_steps = shuttle::MaxSteps::ContinueAfter(bound);
                        let rr = rec::run_streamed(make_sched(k, 5, n / 10 + 2), cfg, move || super::c14::body(variant), |_| {});
                        done += n / 10 + 2;
                        let _ = rr;
                    }
                    let rr = rec::run_streamed(make_sched(k, 3, n / 5 + 1), rec::base_config(), move || super::c14::body(variant), |_| {});
                    done += n / 5 + 1;
                    assert!(rr.term == Term::Pass || matches!(rr.term, Term::Panic(_)));
                }
            }
        }
        // thread trees with thread-locals whose destructors touch other thread-locals and locks
        "threads" => {
            let mut rng = Rng::new(7);
            for i in 0..(n / 4 + 1) {
                let plan = super::c07::gen_plan(&mut rng, 2 + i % 4);
                for k in [0usize, 2, 6] {
                    let p = std::sync::Arc::new(plan.clone());
                    let rr = rec::run_streamed(make_sched(k, i as u64, 4), rec::base_config(), move || { super::c07::run_thread(p.clone(), 0); }, |_| {});
                    done += 4;
                    let _ = rr;
                }
            }
        }
        // failing executions: panics in tasks while others hold guards / thread-locals, deadlocks
        "failing" => {
            for sc in ["panic-thread", "panic-lock", "panic-future", "panic-tls", "deadlock", "step-bound"] {
                for s in 0..(n / 6 + 1) {
                    let scn = super::c12::Scenario::parse(sc);
                    let mut cfg = rec::base_config();
                    if sc == "step-bound" {
                        cfg.max_steps = shuttle::MaxSteps::FailAfter(12);
                    }
                    let rr = rec::run_streamed(RandomScheduler::new_from_seed(s as u64, 30), cfg, move || super::c12::body(scn, 0), |_| {});
                    done += 1;
                    let _ = rr;
                }
            }
        }
        // async programs (hand-rolled wakers kept in shared slots, aborts, detaches, nested block_on)
        // and hand-polled / cancelled / moved semaphore acquisitions
        "async" => {
            let mut rng = Rng::new(17);
            let mut acc = crate::oracle::Acc::default();
            for i in 0..(n / 2 + 1) {
                let p = super::c17::gen_prog(&mut rng, 2 + i % 4);
                super::c17::one_prog(&p, [0usize, 2, 6][i % 3], rng.next(), 6, &mut acc);
            }
            for w in 0..4 {
                super::c18::run_scenario(w, &mut acc);
            }
            for i in 0..(n / 2 + 1) {
                let nclients = 2 + i % 3;
                let sc = super::c18::gen_script(&mut rng, nclients, 12);
                super::c18::run_script(&sc, 1 + i % 4, nclients, [0usize, 2][i % 2], rng.next(), &mut acc);
            }
            done = acc.evaluations as usize;
        }
        // the schedule codec on generated and malformed strings
        _ => {
            use super::c16::*;
            let mut rng = Rng::new(16);
            let seeds = boundary_seeds(&mut rng);
            let tids = boundary_tids(&mut rng);
            for _ in 0..(n * 20) {
                let s = gen_schedule(&mut rng, &seeds, &tids, 300);
                let enc = rec::serialize(&s);
                let back = decode(&with_whitespace(&mut rng, &enc));
                assert!(matches!(back, Ok(Some(ref b)) if *b == s));
                // damaged encodings must be rejected or decoded without touching invalid memory
                let mut bytes = enc.clone().into_bytes();
                if !bytes.is_empty() {
                    let i = rng.below(bytes.len());
                    bytes[i] = b"0123456789abcdef,g"[rng.below(18)];
                    bytes.truncate(bytes.len() - rng.below(bytes.len().min(4)));
                }
                let _ = decode(&String::from_utf8_lossy(&bytes));
                done += 2;
            }
        }
    }
    println!("SANIT-DONE {done}");
}

pub struct SanitOutcome {
    pub ran: bool,
    pub executions: u64,
    pub errors: Vec<String>,
    pub note: String,
}

/// Run `verif sanit <scenario> <n>` under valgrind memcheck.
pub fn memcheck(scenario: &str, n: usize) -> SanitOutcome {
    let exe = std::env::current_exe().expect("exe"); // (a path: valgrind execs it, so /proc/self/exe would be valgrind)
    let has = Command::new("valgrind").arg("--version").output().map(|o| o.status.success()).unwrap_or(false);
    if !has {
        return SanitOutcome { ran: false, executions: 0, errors: vec![], note: "valgrind not found".into() };
    }
    let out = Command::new("valgrind")
        .args(["--tool=memcheck", "--error-exitcode=97", "--leak-check=no", "-q", "--num-callers=20"])
        .arg(&exe)
        .args(["sanit", scenario, &n.to_string()])
        .env("VERIF_STDERR", "keep")
        .output();
    match out {
        Err(e) => SanitOutcome { ran: false, executions: 0, errors: vec![], note: format!("valgrind could not be started: {e}") },
        Ok(o) => {
            let stdout = String::from_utf8_lossy(&o.stdout).to_string();
            let stderr = String::from_utf8_lossy(&o.stderr).to_string();
            let executions = stdout.lines().find_map(|l| l.strip_prefix("SANIT-DONE ")).and_then(|x| x.trim().parse().ok()).unwrap_or(0);
            // memcheck error blocks start with "==pid== <Kind>" lines such as "Invalid read of size 8"
            let mut errors = vec![];
            let mut lines = stderr.lines().peekable();
            while let Some(l) = lines.next() {
                let Some(rest) = l.split("== ").nth(1) else { continue };
                let kinds = ["Invalid read", "Invalid write", "Invalid free", "Mismatched free", "Conditional jump or move depends on uninitialised", "Use of uninitialised", "Syscall param", "Source and destination overlap", "Jump to the invalid address", "Process terminating"];
                if kinds.iter().any(|k| rest.starts_with(k)) {
                    // first in-repo frame for de-duplication
                    let mut frame = String::new();
                    for _ in 0..20 {
                        match lines.peek() {
                            Some(n) if n.contains(" at 0x") || n.contains(" by 0x") => {
                                let n = lines.next().unwrap();
                                if frame.is_empty() && (n.contains("shuttle") || n.contains("/repo/")) {
                                    frame = n.split(": ").nth(1).unwrap_or("").chars().take(100).collect();
                                }
                            }
                            _ => break,
                        }
                    }
                    let sig = format!("{}|{}", rest.split(" of size").next().unwrap_or(rest).trim(), frame);
                    if !errors.contains(&sig) {
                        errors.push(sig);
                    }
                }
            }
            let note = if executions == 0 && errors.is_empty() {
                format!("the slice did not finish under valgrind (exit {:?}): {}", o.status.code(), stderr.lines().rev().take(3).collect::<Vec<_>>().join(" | "))
            } else {
                String::new()
            };
            SanitOutcome { ran: executions > 0 || !errors.is_empty(), executions, errors, note }
        }
    }
}

/// Attach a memcheck slice to a report (called by the checks whose property leans on unsafe code).
pub fn attach(r: &mut Report, scenario: &str, n: usize) {
    let t = std::time::Instant::now();
    let o = memcheck(scenario, n);
    r.set(&format!("memcheck_{scenario}"), json!({"ran": o.ran, "executions_under_valgrind": o.executions, "error_kinds": o.errors, "note": o.note, "wall_s": t.elapsed().as_secs_f64()}));
    for e in &o.errors {
        r.violation(&format!("memcheck:{scenario}:{}", e.split('|').next().unwrap_or("")), &format!("valgrind memcheck reported `{e}` while running the `{scenario}` slice"), json!({"scenario": scenario, "report": e}));
    }
    if !o.ran && !o.note.is_empty() {
        r.inconclusive.push(format!("memcheck slice `{scenario}`: {}", o.note));
    }
}

/// Build `pkg` with AddressSanitizer (nightly, the harness's own target directory `target-asan`) and
/// run `<bin> sanit <scenario> <n>` in it. Thorough tier only: the build takes minutes.
pub fn asan(pkg: &str, bin: &str, scenario: &str, n: usize) -> SanitOutcome {
    let dir = format!("{}/harness", crate::util::VERIF_DIR);
    let build = Command::new("cargo")
        .args(["+nightly", "build", "--release", "--offline", "--target", "x86_64-unknown-linux-gnu", "--target-dir", "target-asan", "-p", pkg, "--features", "verif,asan"])
        .env("RUSTFLAGS", "-Zsanitizer=address -Cforce-frame-pointers=yes")
        .env("CARGO_NET_OFFLINE", "true")
        .current_dir(&dir)
        .output();
    match build {
        Err(e) => return SanitOutcome { ran: false, executions: 0, errors: vec![], note: format!("cargo +nightly could not be started: {e}") },
        Ok(o) if !o.status.success() => {
            let err = String::from_utf8_lossy(&o.stderr);
            return SanitOutcome { ran: false, executions: 0, errors: vec![], note: format!("ASan build failed: {}", err.lines().rev().take(4).collect::<Vec<_>>().join(" | ")) };
        }
        _ => {}
    }
    let exe = format!("{dir}/target-asan/x86_64-unknown-linux-gnu/release/{bin}");
    let out = Command::new(&exe)
        .args(["sanit", scenario, &n.to_string()])
        .env("ASAN_OPTIONS", "detect_leaks=0:halt_on_error=1:abort_on_error=0:detect_stack_use_after_return=0:exitcode=98")
        .env("VERIF_STDERR", "keep")
        .output();
    match out {
        Err(e) => SanitOutcome { ran: false, executions: 0, errors: vec![], note: format!("ASan binary could not be started: {e}") },
        Ok(o) => {
            let stdout = String::from_utf8_lossy(&o.stdout).to_string();
            let stderr = String::from_utf8_lossy(&o.stderr).to_string();
            let executions = stdout.lines().find_map(|l| l.strip_prefix("SANIT-DONE ")).and_then(|x| x.trim().parse().ok()).unwrap_or(0);
            let mut errors = vec![];
            let mut lines = stderr.lines().peekable();
            while let Some(l) = lines.next() {
                if let Some(rest) = l.split("ERROR: AddressSanitizer: ").nth(1) {
                    let kind = rest.split(" on address").next().unwrap_or(rest).split(" (pc").next().unwrap_or(rest).trim().to_string();
                    let mut frame = String::new();
                    for _ in 0..40 {
                        match lines.peek() {
                            Some(n) if n.trim_start().starts_with('#') || n.starts_with("READ") || n.starts_with("WRITE") || n.trim().is_empty() => {
                                let n = lines.next().unwrap();
                                if frame.is_empty() && n.contains(" in ") && (n.contains("shuttle") || n.contains("/repo/")) {
                                    frame = n.split(" in ").nth(1).unwrap_or("").split(" /").next().unwrap_or("").chars().take(100).collect();
                                }
                            }
                            _ => break,
                        }
                    }
                    errors.push(format!("{kind}|{frame}"));
                }
            }
            let note = if executions == 0 && errors.is_empty() {
                format!("the slice did not finish under ASan (exit {:?}): {}", o.status.code(), stderr.lines().rev().take(3).collect::<Vec<_>>().join(" | "))
            } else {
                String::new()
            };
            SanitOutcome { ran: executions > 0 || !errors.is_empty(), executions, errors, note }
        }
    }
}

pub fn attach_asan(r: &mut Report, pkg: &str, bin: &str, scenario: &str, n: usize) {
    let t = std::time::Instant::now();
    let o = asan(pkg, bin, scenario, n);
    r.set(&format!("asan_{scenario}"), json!({"ran": o.ran, "executions_under_asan": o.executions, "error_kinds": o.errors, "note": o.note, "wall_s": t.elapsed().as_secs_f64()}));
    for e in &o.errors {
        r.violation(&format!("asan:{scenario}:{}", e.split('|').next().unwrap_or("")), &format!("AddressSanitizer reported `{e}` while running the `{scenario}` slice"), json!({"scenario": scenario, "report": e}));
    }
    if !o.ran && !o.note.is_empty() {
        r.inconclusive.push(format!("ASan slice `{scenario}`: {}", o.note));
    }
}
