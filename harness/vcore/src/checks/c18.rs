//! C18: BatchSemaphore conserves permits, honours its fairness mode, is cancel-safe.
//! (A) scripted, manually polled Acquire futures on a strictly fair semaphore, every step validated
//!     against a counting-semaphore-with-FIFO model and against the semaphore's internal state (hook);
//! (B) scheduled blocking programs in both fairness modes against the reference model (families);
//! (C) scheduled scenarios with futures created in one task and polled by another, cancellations
//!     racing with releases, enumerated exhaustively.
use crate::explore;
use crate::gen::Family;
use crate::oracle::{self, Acc};
use crate::prog::Slot;
use crate::rec::{self, Term};
use crate::util::{Report, Rng};
use serde_json::json;
use shuttle::future::batch_semaphore::{Acquire, BatchSemaphore, Fairness, TryAcquireError};
use shuttle::future as sfuture;
use std::cell::RefCell;
use std::future::Future;
use std::pin::Pin;
use std::rc::Rc;
use std::sync::Arc;
use std::task::{Context, Poll, Wake, Waker};

#[derive(Clone, Debug, PartialEq)]
pub enum SOp {
    Start(usize, usize),
    Poll(usize),
    Cancel(usize),
    Release(usize),
    Try(usize),
    Close,
    Avail,
}

#[derive(Clone, Debug, PartialEq)]
pub enum SRes {
    Unit,
    Ready(bool),
    Pending,
    Try(i8), // 0 ok, 1 no permits, 2 closed
    Avail(usize),
}

#[derive(Clone, Debug, PartialEq)]
enum CState {
    None,
    Created(usize),
    Queued(usize),
    Granted(usize),
}

/// The reference: a counting semaphore with a strict FIFO queue.
struct Model {
    avail: usize,
    closed: bool,
    queue: Vec<usize>,
    clients: Vec<CState>,
}

impl Model {
    fn grant(&mut self, woken: &mut Vec<usize>) {
        while let Some(&h) = self.queue.first() {
            let CState::Queued(n) = self.clients[h] else { break };
            if n <= self.avail {
                self.avail -= n;
                self.queue.remove(0);
                self.clients[h] = CState::Granted(n);
                woken.push(h);
            } else {
                break;
            }
        }
    }
    fn step(&mut self, op: &SOp) -> (SRes, Vec<usize>) {
        let mut woken = vec![];
        let r = match op {
            SOp::Start(i, n) => {
                self.clients[*i] = CState::Created(*n);
                SRes::Unit
            }
            SOp::Poll(i) => match self.clients[*i].clone() {
                CState::None => SRes::Unit,
                CState::Granted(_) => {
                    self.clients[*i] = CState::None;
                    SRes::Ready(true)
                }
                _ if self.closed => {
                    self.clients[*i] = CState::None;
                    SRes::Ready(false)
                }
                CState::Created(n) => {
                    // a request for zero permits is always satisfiable and takes nothing from the queue
                    if n == 0 || (self.queue.is_empty() && self.avail >= n) {
                        self.avail -= n;
                        self.clients[*i] = CState::None;
                        SRes::Ready(true)
                    } else {
                        self.queue.push(*i);
                        self.clients[*i] = CState::Queued(n);
                        SRes::Pending
                    }
                }
                CState::Queued(_) => SRes::Pending,
            },
            SOp::Cancel(i) => {
                match self.clients[*i].clone() {
                    CState::Queued(_) => {
                        let pos = self.queue.iter().position(|x| x == i).unwrap();
                        self.queue.remove(pos);
                        self.clients[*i] = CState::None;
                        if pos == 0 {
                            self.grant(&mut woken);
                        }
                    }
                    CState::Granted(n) => {
                        self.clients[*i] = CState::None;
                        self.avail += n;
                        self.grant(&mut woken);
                    }
                    _ => self.clients[*i] = CState::None,
                }
                SRes::Unit
            }
            SOp::Release(k) => {
                self.avail += k;
                if !self.closed {
                    self.grant(&mut woken);
                }
                SRes::Unit
            }
            SOp::Try(k) => {
                if self.closed {
                    SRes::Try(2)
                } else if *k > 0 && (!self.queue.is_empty() || self.avail < *k) {
                    SRes::Try(1)
                } else {
                    self.avail -= k;
                    SRes::Try(0)
                }
            }
            SOp::Close => {
                if !self.closed {
                    self.closed = true;
                    for c in std::mem::take(&mut self.queue) {
                        woken.push(c);
                    }
                }
                SRes::Unit
            }
            SOp::Avail => SRes::Avail(self.avail),
        };
        woken.sort();
        (r, woken)
    }
}

struct FlagWaker {
    client: usize,
    flags: Arc<Vec<Slot<bool>>>,
}
impl Wake for FlagWaker {
    fn wake(self: Arc<Self>) {
        *self.flags[self.client].get() = true;
    }
    fn wake_by_ref(self: &Arc<Self>) {
        *self.flags[self.client].get() = true;
    }
}

/// hand-off cell between the driver and a client task, with the waiting side's waker
struct Mailbox {
    cmd: Slot<Option<SOp>>,
    reply: Slot<Option<SRes>>,
    client_waker: Slot<Option<Waker>>,
    driver_waker: Slot<Option<Waker>>,
    task_id: Slot<Option<usize>>,
}

struct NextCmd(Arc<Mailbox>);
impl Future for NextCmd {
    type Output = SOp;
    fn poll(self: Pin<&mut Self>, cx: &mut Context<'_>) -> Poll<SOp> {
        if let Some(c) = self.0.cmd.get().take() {
            Poll::Ready(c)
        } else {
            *self.0.client_waker.get() = Some(cx.waker().clone());
            Poll::Pending
        }
    }
}
struct NextReply(Arc<Mailbox>);
impl Future for NextReply {
    type Output = SRes;
    fn poll(self: Pin<&mut Self>, cx: &mut Context<'_>) -> Poll<SRes> {
        if let Some(c) = self.0.reply.get().take() {
            Poll::Ready(c)
        } else {
            *self.0.driver_waker.get() = Some(cx.waker().clone());
            Poll::Pending
        }
    }
}

#[derive(Clone, Debug)]
struct StepObs {
    res: SRes,
    woken: Vec<usize>,
    snap_avail: usize,
    snap_closed: bool,
    snap_waiters: Vec<(usize, usize, bool, bool)>,
    snap_batches: Option<usize>,
    public_avail: usize,
}

fn script_body(script: Vec<SOp>, permits: usize, nclients: usize, out: Arc<std::sync::Mutex<Vec<StepObs>>>, ids: Arc<std::sync::Mutex<Vec<usize>>>) {
    let sem = Arc::new(BatchSemaphore::new(permits, Fairness::StrictlyFair));
    let flags: Arc<Vec<Slot<bool>>> = Arc::new((0..nclients).map(|_| Slot::new(false)).collect());
    let boxes: Vec<Arc<Mailbox>> = (0..nclients + 1)
        .map(|_| {
            Arc::new(Mailbox {
                cmd: Slot::new(None),
                reply: Slot::new(None),
                client_waker: Slot::new(None),
                driver_waker: Slot::new(None),
                task_id: Slot::new(None),
            })
        })
        .collect();
    // client tasks; the extra one (index nclients) performs the non-acquire operations
    for i in 0..=nclients {
        let mb = boxes[i].clone();
        let sem = sem.clone();
        let flags = flags.clone();
        let h = sfuture::spawn(async move {
            *mb.task_id.get() = Some(usize::from(shuttle::current::me()));
            let mut fut: Option<Pin<Box<Acquire<'static>>>> = None;
            loop {
                let cmd = NextCmd(mb.clone()).await;
                // SAFETY: `sem` (an Arc) outlives `fut`, which is dropped before `sem` below
                let semref: &'static BatchSemaphore = unsafe { &*Arc::as_ptr(&sem) };
                let res = match cmd {
                    SOp::Start(_, n) => {
                        fut = Some(Box::pin(semref.acquire(n)));
                        SRes::Unit
                    }
                    SOp::Poll(c) => match fut.as_mut() {
                        Some(f) => {
                            let w: Waker = Arc::new(FlagWaker { client: c, flags: flags.clone() }).into();
                            let mut cx = Context::from_waker(&w);
                            match f.as_mut().poll(&mut cx) {
                                Poll::Ready(r) => {
                                    fut = None;
                                    SRes::Ready(r.is_ok())
                                }
                                Poll::Pending => SRes::Pending,
                            }
                        }
                        None => SRes::Unit,
                    },
                    SOp::Cancel(_) => {
                        fut = None;
                        SRes::Unit
                    }
                    SOp::Release(k) => {
                        semref.release(k);
                        SRes::Unit
                    }
                    SOp::Try(k) => match semref.try_acquire(k) {
                        Ok(()) => SRes::Try(0),
                        Err(TryAcquireError::NoPermits) => SRes::Try(1),
                        Err(TryAcquireError::Closed) => SRes::Try(2),
                    },
                    SOp::Close => {
                        semref.close();
                        SRes::Unit
                    }
                    SOp::Avail => SRes::Avail(semref.available_permits()),
                };
                *mb.reply.get() = Some(res);
                if let Some(w) = mb.driver_waker.get().take() {
                    w.wake();
                }
            }
        });
        drop(h); // detached: cut off when the driver is done
    }
    let sem2 = sem.clone();
    sfuture::block_on(async move {
        // let every client register its task id
        while boxes.iter().any(|b| b.task_id.get().is_none()) {
            sfuture::yield_now().await;
        }
        let mut idv = vec![];
        for b in &boxes {
            idv.push(b.task_id.get().unwrap_or(usize::MAX));
        }
        *ids.lock().unwrap() = idv;
        for op in script {
            let target = match &op {
                SOp::Start(i, _) | SOp::Poll(i) | SOp::Cancel(i) => *i,
                _ => nclients,
            };
            for f in flags.iter() {
                *f.get() = false;
            }
            *boxes[target].cmd.get() = Some(op);
            if let Some(w) = boxes[target].client_waker.get().take() {
                w.wake();
            }
            let res = NextReply(boxes[target].clone()).await;
            let snap = sem2.verif_snapshot();
            let woken: Vec<usize> = flags.iter().enumerate().filter(|(_, f)| *f.get()).map(|(i, _)| i).collect();
            out.lock().unwrap().push(StepObs {
                res,
                woken,
                snap_avail: snap.available,
                snap_closed: snap.closed,
                snap_waiters: snap.waiters.iter().map(|w| (usize::from(w.0), w.1, w.2, w.3)).collect(),
                snap_batches: snap.permit_batches_sum,
                public_avail: sem2.available_permits(),
            });
        }
    });
}

pub fn gen_script(rng: &mut Rng, nclients: usize, len: usize) -> Vec<SOp> {
    let mut st: Vec<u8> = vec![0; nclients]; // 0 none, 1 has acquire
    let mut v = vec![];
    for _ in 0..len {
        let c = rng.below(nclients);
        let op = match rng.below(12) {
            0..=2 => {
                if st[c] == 0 {
                    st[c] = 1;
                    SOp::Start(c, if rng.chance(1, 10) { 0 } else { rng.range(1, 3) })
                } else {
                    SOp::Poll(c)
                }
            }
            3..=5 => {
                if st[c] == 1 {
                    SOp::Poll(c)
                } else {
                    SOp::Release(rng.range(1, 2))
                }
            }
            6 => {
                if st[c] == 1 {
                    st[c] = 0;
                    SOp::Cancel(c)
                } else {
                    SOp::Try(rng.range(1, 2))
                }
            }
            7 | 8 => SOp::Release(rng.range(1, 3)),
            9 => SOp::Try(if rng.chance(1, 6) { 0 } else { rng.range(1, 3) }),
            10 => {
                if rng.chance(1, 5) {
                    SOp::Close
                } else {
                    SOp::Avail
                }
            }
            _ => SOp::Avail,
        };
        v.push(op);
    }
    v
}

pub fn run_script(script: &[SOp], permits: usize, nclients: usize, k: usize, seed: u64, acc: &mut Acc) {
    let wit = |extra: serde_json::Value| json!({"permits": permits, "clients": nclients, "script": format!("{:?}", script), "detail": extra});
    let out: Arc<std::sync::Mutex<Vec<StepObs>>> = Arc::new(std::sync::Mutex::new(vec![]));
    let ids: Arc<std::sync::Mutex<Vec<usize>>> = Arc::new(std::sync::Mutex::new(vec![]));
    let (o2, i2, s2) = (out.clone(), ids.clone(), script.to_vec());
    let mut cfg = rec::base_config();
    cfg.max_steps = shuttle::MaxSteps::FailAfter(50_000);
    let rr = rec::run_streamed(super::c01::make_sched(k, seed, 1), cfg, move || script_body(s2.clone(), permits, nclients, o2.clone(), i2.clone()), |_f| {});
    acc.evaluations += 1;
    acc.distinct.insert(crate::util::hash64(format!("{:?}{permits}{nclients}", script).as_bytes()));
    if rr.term != Term::Pass {
        acc.violation("script-failed", format!("a legal sequence of semaphore operations ended {:?}", rr.term), wit(json!({"steps_done": out.lock().unwrap().len()})));
        return;
    }
    let obs = out.lock().unwrap().clone();
    let ids = ids.lock().unwrap().clone();
    let mut m = Model { avail: permits, closed: false, queue: vec![], clients: vec![CState::None; nclients] };
    for (i, (op, o)) in script.iter().zip(obs.iter()).enumerate() {
        let (want, mut woken) = m.step(op);
        acc.add("steps_validated", 1);
        // a client that is woken and was itself the one operated on is still a wake
        woken.dedup();
        let got_res = if want == SRes::Unit { SRes::Unit } else { o.res.clone() };
        if got_res != want {
            acc.violation(
                &format!("wrong-result:{}", format!("{:?}", op).split('(').next().unwrap_or("")),
                format!("step {i} {:?}: semaphore answered {:?}, the FIFO counting model says {:?}", op, o.res, want),
                wit(json!({"step": i})),
            );
            return;
        }
        if o.woken != woken {
            acc.violation("wrong-wakeups", format!("step {i} {:?}: wakers invoked for clients {:?}, model expects {:?}", op, o.woken, woken), wit(json!({"step": i})));
            return;
        }
        if o.snap_avail != m.avail || o.public_avail != m.avail {
            acc.violation(
                "permits-not-conserved",
                format!("step {i} {:?}: {} permits available (internal {}), model has {} (initial + released − held)", op, o.public_avail, o.snap_avail, m.avail),
                wit(json!({"step": i})),
            );
            return;
        }
        if let Some(b) = o.snap_batches {
            if b != o.snap_avail {
                acc.violation("permit-batches-inconsistent", format!("step {i}: permit batches sum to {b} but {} are available", o.snap_avail), wit(json!({"step": i})));
            }
        }
        // internal queue == model queue (by client task), flags as documented
        let want_q: Vec<(usize, usize)> = m
            .queue
            .iter()
            .map(|c| (ids.get(*c).copied().unwrap_or(usize::MAX), if let CState::Queued(n) = m.clients[*c] { n } else { 0 }))
            .collect();
        let got_q: Vec<(usize, usize)> = o.snap_waiters.iter().map(|w| (w.0, w.1)).collect();
        if got_q != want_q {
            acc.violation("queue-differs", format!("step {i} {:?}: internal wait queue (task, n) = {:?}, model queue = {:?}", op, got_q, want_q), wit(json!({"step": i})));
            return;
        }
        if o.snap_waiters.iter().any(|w| !w.2 || w.3) {
            acc.violation("waiter-flags", format!("step {i}: a queued waiter is not flagged queued, or already has permits: {:?}", o.snap_waiters), wit(json!({"step": i})));
        }
        if let Some(h) = o.snap_waiters.first() {
            if h.1 <= o.snap_avail && !o.snap_closed {
                acc.violation("head-waiter-fits", format!("step {i}: the head waiter wants {} and {} permits are available, yet it is still queued", h.1, o.snap_avail), wit(json!({"step": i})));
            }
        }
        if o.snap_closed != m.closed || (o.snap_closed && !o.snap_waiters.is_empty()) {
            acc.violation("closed-state", format!("step {i}: closed = {} with {} queued waiters, model closed = {}", o.snap_closed, o.snap_waiters.len(), m.closed), wit(json!({"step": i})));
        }
    }
    if obs.len() != script.len() {
        acc.violation("script-incomplete", format!("{} of {} steps were performed", obs.len(), script.len()), wit(json!(null)));
    }
    if acc.samples.len() < 3 {
        acc.samples.push(json!({"kind": "script", "permits": permits, "clients": nclients, "script": format!("{:?}", script)}));
    }
}

/// (C) scheduled scenarios, enumerated exhaustively; each returns Err(description) on a bad outcome.
fn scenario(which: usize) -> (&'static str, Box<dyn Fn() + Send + Sync>) {
    match which {
        // an Acquire created by main is first polled by another task; the release must wake that task
        0 => (
            "future-moved-to-another-task",
            Box::new(|| {
                let sem = Arc::new(BatchSemaphore::new(0, Fairness::StrictlyFair));
                let s2: &'static BatchSemaphore = unsafe { &*Arc::as_ptr(&sem) };
                let fut = s2.acquire(1);
                let keep = sem.clone();
                let h = sfuture::spawn(async move {
                    let _k = keep;
                    fut.await.unwrap();
                });
                let rel = sem.clone();
                let r = sfuture::spawn(async move {
                    rel.release(1);
                });
                sfuture::block_on(async move {
                    r.await.unwrap();
                    h.await.unwrap();
                });
                assert_eq!(sem.available_permits(), 0, "permit accounting");
            }),
        ),
        // a queued head request is cancelled while a follower that fits is waiting behind it
        1 => (
            "cancel-head-releases-follower",
            Box::new(|| {
                let sem = Arc::new(BatchSemaphore::new(1, Fairness::StrictlyFair));
                let s1 = sem.clone();
                let big = sfuture::spawn(async move {
                    let s: &BatchSemaphore = &s1;
                    // poll once, then give up
                    let mut f = Box::pin(s.acquire(2));
                    let polled = std::future::poll_fn(|cx| Poll::Ready(f.as_mut().poll(cx).is_ready())).await;
                    sfuture::yield_now().await;
                    drop(f);
                    polled
                });
                let s2 = sem.clone();
                let small = sfuture::spawn(async move {
                    s2.acquire(1).await.unwrap();
                    s2.release(1);
                });
                sfuture::block_on(async move {
                    let _ = big.await.unwrap();
                    small.await.unwrap();
                });
                assert_eq!(sem.available_permits(), 1, "permit accounting");
            }),
        ),
        // granted-but-not-consumed permits are returned when the future is dropped
        2 => (
            "drop-after-grant-returns-permits",
            Box::new(|| {
                let sem = Arc::new(BatchSemaphore::new(0, Fairness::StrictlyFair));
                let s1 = sem.clone();
                let waiter = sfuture::spawn(async move {
                    let s: &BatchSemaphore = &s1;
                    let mut f = Box::pin(s.acquire(1));
                    let ready = std::future::poll_fn(|cx| Poll::Ready(f.as_mut().poll(cx).is_ready())).await;
                    sfuture::yield_now().await;
                    sfuture::yield_now().await;
                    drop(f); // possibly after the release below granted it
                    if ready {
                        // completed on the first poll: the permit is ours, give it back explicitly
                        s.release(1);
                    }
                });
                let s2 = sem.clone();
                let rel = sfuture::spawn(async move {
                    s2.release(1);
                });
                sfuture::block_on(async move {
                    waiter.await.unwrap();
                    rel.await.unwrap();
                });
                assert_eq!(sem.available_permits(), 1, "a permit granted to a dropped acquisition was lost");
            }),
        ),
        // close fails pending and future acquisitions
        _ => (
            "close-fails-pending-and-future",
            Box::new(|| {
                let sem = Arc::new(BatchSemaphore::new(0, Fairness::StrictlyFair));
                let s1 = sem.clone();
                let w = sfuture::spawn(async move { s1.acquire(1).await.is_err() });
                let s2 = sem.clone();
                let c = sfuture::spawn(async move {
                    s2.close();
                });
                let s3 = sem.clone();
                sfuture::block_on(async move {
                    c.await.unwrap();
                    assert!(w.await.unwrap(), "a pending acquisition succeeded although the semaphore was closed with no permits");
                    assert!(s3.acquire(1).await.is_err(), "an acquisition after close succeeded");
                    assert_eq!(s3.try_acquire(1), Err(TryAcquireError::Closed));
                });
            }),
        ),
    }
}

pub fn run_scenario(which: usize, acc: &mut Acc) {
    let (name, body) = scenario(which);
    let body: Arc<dyn Fn() + Send + Sync> = Arc::from(body);
    let bad: Rc<RefCell<Vec<(String, Vec<u32>)>>> = Rc::new(RefCell::new(vec![]));
    let n: Rc<RefCell<u64>> = Rc::new(RefCell::new(0));
    let hashes: Rc<RefCell<Vec<u64>>> = Rc::new(RefCell::new(vec![]));
    let (b2, n2, h2) = (bad.clone(), n.clone(), hashes.clone());
    let b = body.clone();
    let out = explore::enumerate(move || b(), rec::base_config(), 60_000, move |f, term| {
        *n2.borrow_mut() += 1;
        if rec::nontrivial(&f.log) {
            h2.borrow_mut().push(rec::hash_choices(&f.log));
        }
        if term != Term::Pass {
            b2.borrow_mut().push((format!("{:?}", term), rec::choice_seq(&f.log)));
        }
        for (sig, what) in rec::contract_check(&f.log, Some(&f.runtime_schedule)) {
            b2.borrow_mut().push((format!("C08:{sig}: {what}"), rec::choice_seq(&f.log)));
        }
    });
    acc.evaluations += *n.borrow();
    acc.distinct.extend(hashes.borrow().iter().copied());
    acc.add("scenarios", 1);
    if out.complete {
        acc.add("scenarios_completely_enumerated", 1);
    }
    if let Some((what, choices)) = bad.borrow().first() {
        acc.violation(&format!("scenario:{name}"), format!("scenario {name} failed on a schedule: {}", what.chars().take(300).collect::<String>()), json!({"scenario": name, "choices": choices}));
    }
    if acc.samples.len() < 5 {
        acc.samples.push(json!({"kind": "scenario", "name": name, "schedules": *n.borrow(), "complete": out.complete}));
    }
}

pub fn run(r: &mut Report) {
    let mut rng = Rng::new(r.seed ^ 0xC18);
    let nscripts = if r.quick() { 3000 } else { 20_000 };
    let mut scripts: Vec<(Vec<SOp>, usize, usize, usize, u64)> = vec![];
    for i in 0..nscripts {
        let nclients = 2 + i % 4;
        let len = 6 + rng.below(30);
        scripts.push((gen_script(&mut rng, nclients, len), rng.below(4), nclients, [0usize, 2, 7][i % 3], rng.next()));
    }
    // structured scripts: build a queue of 3-5 waiters, cancel the waiter at every position (and
    // pairs of positions), then release permits one by one and poll everybody after each release
    for nclients in 3..=5usize {
        for first in 0..nclients {
            for second in [None, Some((first + 2) % nclients)] {
                let mut sc: Vec<SOp> = vec![];
                for c in 0..nclients {
                    sc.push(SOp::Start(c, 1 + (c + first) % 2));
                    sc.push(SOp::Poll(c));
                }
                sc.push(SOp::Cancel(first));
                if let Some(x) = second {
                    if x != first {
                        sc.push(SOp::Cancel(x));
                    }
                }
                for _ in 0..(2 * nclients) {
                    sc.push(SOp::Release(1));
                    for c in 0..nclients {
                        sc.push(SOp::Poll(c));
                    }
                }
                sc.push(SOp::Avail);
                for k in [0usize, 2] {
                    scripts.push((sc.clone(), 0, nclients, k, rng.next()));
                }
            }
        }
    }
    let n_scripts = scripts.len();
    let n_scen = 4;
    let accs = oracle::parallel(n_scripts + n_scen, oracle::workers(), |i, acc| {
        if i < n_scripts {
            let (s, permits, nc, k, seed) = &scripts[i];
            run_script(s, *permits, *nc, *k, *seed, acc);
        } else {
            run_scenario(i - n_scripts, acc);
        }
    });
    for a in accs {
        a.merge_into(r);
    }
    // (B) scheduled blocking programs, both fairness modes, against the reference model
    let plan = super::families::Plan {
        families: vec![Family::Sem],
        n_tiny: if r.quick() { 30 } else { 100 },
        n_small: if r.quick() { 30 } else { 100 },
        n_sampled: if r.quick() { 12 } else { 60 },
        enum_cap: if r.quick() { 8_000 } else { 200_000 },
        sample_iters: if r.quick() { 1_000 } else { 20_000 },
        judge_completeness: false,
        corpus: false,
    };
    super::families::run_plan(r, &plan);
    r.rule = "(A) random scripts of start/poll/cancel/release/try_acquire/close/available_permits over 2-4 clients and 0-3 initial permits on a strictly fair semaphore, each Acquire polled by hand with a flag waker inside its own async task, every step compared with a counting-semaphore-with-FIFO model: result, set of wakers invoked, available permits, and the semaphore's internal queue/flags/closed state from the verif hook (documented invariants 1-4, conservation); (B) generated blocking programs over acquire/try_acquire/release/close/available_permits in both fairness modes, enumerated or sampled, outcomes ⊆ reference model; (C) four scheduled scenarios (future created in one task and polled in another, cancelling the queue head with a fitting follower, dropping a granted-but-unconsumed acquisition, close with pending waiters) enumerated exhaustively. evaluations = scripts + executions; distinct_nontrivial = distinct scripts + distinct choice sequences".into();
    r.assumptions = vec!["manually polled Acquire futures on an *unfair* semaphore are not driven: the unfair mode re-blocks waiter tasks by task id, which presupposes blocking use (Mutex/RwLock); unfair mode is covered by the blocking programs of (B)".into()];
}
