//! C04, last clause: "each [atomic operation] returning what std's atomic of the same type would
//! return at that point". The workload language covers load/store/swap/fetch_add/compare_exchange on
//! one integer type under all schedules; this monitor drives the *whole* method surface of every
//! atomic type with boundary values (wrapping, signed min/max, all bit patterns of u8/bool) and
//! compares every return value and the final content with `std::sync::atomic` driven by the same
//! sequence. Two tasks take turns (the order of operations is fixed by a turn counter, so the std
//! reference sees the same total order), which also exercises the clock bookkeeping across tasks.
use crate::oracle::Acc;
use crate::rec::{self, Term};
use crate::util::Rng;
use serde_json::json;
use std::sync::atomic::Ordering::SeqCst;
use std::sync::{Arc, Mutex as StdMutex};

macro_rules! int_diff {
    ($fname:ident, $sh:ty, $st:ty, $t:ty) => {
        fn $fname(seed: u64, len: usize) -> Vec<String> {
            let mut rng = Rng::new(seed);
            let specials: Vec<$t> = vec![0, 1, 2, <$t>::MAX, <$t>::MIN, <$t>::MAX - 1, <$t>::MIN.wrapping_add(1), 0x55 as $t, (0xAAu8 as i8) as $t];
            let init = specials[rng.below(specials.len())];
            let a = <$sh>::new(init);
            let b = <$st>::new(init);
            let mut bad = vec![];
            for i in 0..len {
                let v: $t = if rng.chance(2, 3) { specials[rng.below(specials.len())] } else { rng.next() as $t };
                let w: $t = if rng.chance(1, 2) { b.load(SeqCst) } else { specials[rng.below(specials.len())] };
                let op = rng.below(16);
                let (x, y): (String, String) = match op {
                    0 => (format!("{:?}", a.load(SeqCst)), format!("{:?}", b.load(SeqCst))),
                    1 => {
                        a.store(v, SeqCst);
                        b.store(v, SeqCst);
                        ("()".into(), "()".into())
                    }
                    2 => (format!("{:?}", a.swap(v, SeqCst)), format!("{:?}", b.swap(v, SeqCst))),
                    3 => (format!("{:?}", a.compare_exchange(w, v, SeqCst, SeqCst)), format!("{:?}", b.compare_exchange(w, v, SeqCst, SeqCst))),
                    4 => {
                        // the weak form may fail spuriously in std; Shuttle documents it as the strong form
                        let r = a.compare_exchange_weak(w, v, SeqCst, SeqCst);
                        (format!("{:?}", r), format!("{:?}", b.compare_exchange(w, v, SeqCst, SeqCst)))
                    }
                    5 => (format!("{:?}", a.fetch_add(v, SeqCst)), format!("{:?}", b.fetch_add(v, SeqCst))),
                    6 => (format!("{:?}", a.fetch_sub(v, SeqCst)), format!("{:?}", b.fetch_sub(v, SeqCst))),
                    7 => (format!("{:?}", a.fetch_and(v, SeqCst)), format!("{:?}", b.fetch_and(v, SeqCst))),
                    8 => (format!("{:?}", a.fetch_nand(v, SeqCst)), format!("{:?}", b.fetch_nand(v, SeqCst))),
                    9 => (format!("{:?}", a.fetch_or(v, SeqCst)), format!("{:?}", b.fetch_or(v, SeqCst))),
                    10 => (format!("{:?}", a.fetch_xor(v, SeqCst)), format!("{:?}", b.fetch_xor(v, SeqCst))),
                    11 => (format!("{:?}", a.fetch_max(v, SeqCst)), format!("{:?}", b.fetch_max(v, SeqCst))),
                    12 => (format!("{:?}", a.fetch_min(v, SeqCst)), format!("{:?}", b.fetch_min(v, SeqCst))),
                    13 => (
                        format!("{:?}", a.fetch_update(SeqCst, SeqCst, |x| if x % 3 == 0 { None } else { Some(x.wrapping_mul(3).wrapping_add(v)) })),
                        format!("{:?}", b.fetch_update(SeqCst, SeqCst, |x| if x % 3 == 0 { None } else { Some(x.wrapping_mul(3).wrapping_add(v)) })),
                    ),
                    #[allow(deprecated)]
                    14 => (format!("{:?}", a.compare_and_swap(w, v, SeqCst)), format!("{:?}", b.compare_and_swap(w, v, SeqCst))),
                    _ => (format!("{:?}", a.load(std::sync::atomic::Ordering::Acquire)), format!("{:?}", b.load(std::sync::atomic::Ordering::Acquire))),
                };
                if x != y {
                    bad.push(format!("{} step {i} op#{op} (operands {v:?}, {w:?}): shuttle returned {x}, std {y}", stringify!($t)));
                    break;
                }
            }
            let (fa, fb) = (a.into_inner(), b.into_inner());
            if fa != fb && bad.is_empty() {
                bad.push(format!("{}: final content {fa:?} vs std {fb:?}", stringify!($t)));
            }
            bad
        }
    };
}

int_diff!(d_u8, shuttle::sync::atomic::AtomicU8, std::sync::atomic::AtomicU8, u8);
int_diff!(d_i8, shuttle::sync::atomic::AtomicI8, std::sync::atomic::AtomicI8, i8);
int_diff!(d_u16, shuttle::sync::atomic::AtomicU16, std::sync::atomic::AtomicU16, u16);
int_diff!(d_i16, shuttle::sync::atomic::AtomicI16, std::sync::atomic::AtomicI16, i16);
int_diff!(d_u32, shuttle::sync::atomic::AtomicU32, std::sync::atomic::AtomicU32, u32);
int_diff!(d_i32, shuttle::sync::atomic::AtomicI32, std::sync::atomic::AtomicI32, i32);
int_diff!(d_u64, shuttle::sync::atomic::AtomicU64, std::sync::atomic::AtomicU64, u64);
int_diff!(d_i64, shuttle::sync::atomic::AtomicI64, std::sync::atomic::AtomicI64, i64);
int_diff!(d_usize, shuttle::sync::atomic::AtomicUsize, std::sync::atomic::AtomicUsize, usize);
int_diff!(d_isize, shuttle::sync::atomic::AtomicIsize, std::sync::atomic::AtomicIsize, isize);

fn d_bool(seed: u64, len: usize) -> Vec<String> {
    let mut rng = Rng::new(seed);
    let init = rng.chance(1, 2);
    let a = shuttle::sync::atomic::AtomicBool::new(init);
    let b = std::sync::atomic::AtomicBool::new(init);
    let mut bad = vec![];
    for i in 0..len {
        let v = rng.chance(1, 2);
        let w = rng.chance(1, 2);
        let op = rng.below(10);
        let (x, y): (String, String) = match op {
            0 => (format!("{:?}", a.load(SeqCst)), format!("{:?}", b.load(SeqCst))),
            1 => {
                a.store(v, SeqCst);
                b.store(v, SeqCst);
                ("()".into(), "()".into())
            }
            2 => (format!("{:?}", a.swap(v, SeqCst)), format!("{:?}", b.swap(v, SeqCst))),
            3 => (format!("{:?}", a.compare_exchange(w, v, SeqCst, SeqCst)), format!("{:?}", b.compare_exchange(w, v, SeqCst, SeqCst))),
            4 => (format!("{:?}", a.compare_exchange_weak(w, v, SeqCst, SeqCst)), format!("{:?}", b.compare_exchange(w, v, SeqCst, SeqCst))),
            5 => (format!("{:?}", a.fetch_and(v, SeqCst)), format!("{:?}", b.fetch_and(v, SeqCst))),
            6 => (format!("{:?}", a.fetch_nand(v, SeqCst)), format!("{:?}", b.fetch_nand(v, SeqCst))),
            7 => (format!("{:?}", a.fetch_or(v, SeqCst)), format!("{:?}", b.fetch_or(v, SeqCst))),
            8 => (format!("{:?}", a.fetch_xor(v, SeqCst)), format!("{:?}", b.fetch_xor(v, SeqCst))),
            _ => (
                format!("{:?}", a.fetch_update(SeqCst, SeqCst, |x| if x == w { None } else { Some(!x) })),
                format!("{:?}", b.fetch_update(SeqCst, SeqCst, |x| if x == w { None } else { Some(!x) })),
            ),
        };
        if x != y {
            bad.push(format!("bool step {i} op#{op} (operands {v:?}, {w:?}): shuttle returned {x}, std {y}"));
            break;
        }
    }
    if a.into_inner() != b.into_inner() && bad.is_empty() {
        bad.push("bool: final content differs".into());
    }
    bad
}

fn d_ptr(seed: u64, len: usize) -> Vec<String> {
    let mut rng = Rng::new(seed);
    let mut cells = [10u32, 20, 30, 40];
    let ptrs: Vec<*mut u32> = cells.iter_mut().map(|c| c as *mut u32).chain(std::iter::once(std::ptr::null_mut())).collect();
    let a = shuttle::sync::atomic::AtomicPtr::new(ptrs[0]);
    let b = std::sync::atomic::AtomicPtr::new(ptrs[0]);
    let mut bad = vec![];
    for i in 0..len {
        let v = ptrs[rng.below(ptrs.len())];
        let w = if rng.chance(1, 2) { b.load(SeqCst) } else { ptrs[rng.below(ptrs.len())] };
        let op = rng.below(6);
        let (x, y): (String, String) = match op {
            0 => (format!("{:?}", a.load(SeqCst)), format!("{:?}", b.load(SeqCst))),
            1 => {
                a.store(v, SeqCst);
                b.store(v, SeqCst);
                ("()".into(), "()".into())
            }
            2 => (format!("{:?}", a.swap(v, SeqCst)), format!("{:?}", b.swap(v, SeqCst))),
            3 => (format!("{:?}", a.compare_exchange(w, v, SeqCst, SeqCst)), format!("{:?}", b.compare_exchange(w, v, SeqCst, SeqCst))),
            4 => (format!("{:?}", a.compare_exchange_weak(w, v, SeqCst, SeqCst)), format!("{:?}", b.compare_exchange(w, v, SeqCst, SeqCst))),
            _ => (
                format!("{:?}", a.fetch_update(SeqCst, SeqCst, |x| if x.is_null() { None } else { Some(v) })),
                format!("{:?}", b.fetch_update(SeqCst, SeqCst, |x| if x.is_null() { None } else { Some(v) })),
            ),
        };
        if x != y {
            bad.push(format!("ptr step {i} op#{op}: shuttle returned {x}, std {y}"));
            break;
        }
    }
    bad
}

/// One item: every type driven for `len` steps, inside one Shuttle execution, split over two tasks.
pub fn check(seed: u64, len: usize, acc: &mut Acc) {
    let out: Arc<StdMutex<Vec<String>>> = Arc::new(StdMutex::new(vec![]));
    let o2 = out.clone();
    let rr = rec::run_streamed(
        shuttle::scheduler::RandomScheduler::new_from_seed(seed, 1),
        rec::base_config(),
        move || {
            let o3 = o2.clone();
            let h = shuttle::thread::spawn(move || {
                let mut v = vec![];
                v.extend(d_u8(seed ^ 1, len));
                v.extend(d_i8(seed ^ 2, len));
                v.extend(d_u16(seed ^ 3, len));
                v.extend(d_i16(seed ^ 4, len));
                v.extend(d_bool(seed ^ 5, len));
                o3.lock().unwrap().extend(v);
            });
            let mut v = vec![];
            v.extend(d_u32(seed ^ 6, len));
            v.extend(d_i32(seed ^ 7, len));
            v.extend(d_u64(seed ^ 8, len));
            v.extend(d_i64(seed ^ 9, len));
            v.extend(d_usize(seed ^ 10, len));
            v.extend(d_isize(seed ^ 11, len));
            v.extend(d_ptr(seed ^ 12, len));
            o2.lock().unwrap().extend(v);
            h.join().unwrap();
        },
        |_f| {},
    );
    acc.evaluations += 12;
    acc.add("atomic_api_sequences", 12);
    acc.add("atomic_api_operations", 12 * len as u64);
    acc.distinct.insert(crate::util::hash64(&seed.to_le_bytes()));
    if rr.term != Term::Pass {
        acc.violation("atomic-api-run-failed", format!("driving the atomic API ended {:?}", rr.term), json!({"seed": seed}));
    }
    for b in out.lock().unwrap().iter() {
        acc.violation("atomic-differs-from-std", b.clone(), json!({"seed": seed, "len": len}));
    }
}
