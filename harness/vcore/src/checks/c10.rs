//! C10: random schedulers are seed-deterministic, reproducible per iteration, and unbiased.
use crate::explore;
use crate::gen::{self, Family};
use crate::oracle::{self, Acc};
use crate::prog::*;
use crate::rec::{self, Ev, Term};
use crate::util::{Report, Rng};
use serde_json::json;
use shuttle::scheduler::*;
use std::cell::RefCell;
use std::collections::{BTreeMap, BTreeSet};
use std::rc::Rc;
use std::sync::Arc;

use super::c01::{first_diff, signature, Sig};

fn body_of(prog: &Prog) -> (impl Fn() + Send + Sync + Clone + 'static, Arc<std::sync::Mutex<Option<Arc<World>>>>) {
    let slot: Arc<std::sync::Mutex<Option<Arc<World>>>> = Arc::new(std::sync::Mutex::new(None));
    let p2 = prog.clone();
    let s2 = slot.clone();
    (move || run_prog(&p2, false, &s2), slot)
}

fn run_logs<S: Scheduler + 'static>(prog: &Prog, sched: S) -> (Vec<rec::ExecLog>, Term) {
    let (body, slot) = body_of(prog);
    let collected: Rc<RefCell<Vec<rec::ExecLog>>> = Rc::new(RefCell::new(vec![]));
    let c2 = collected.clone();
    let mut cfg = rec::base_config();
    cfg.max_steps = shuttle::MaxSteps::FailAfter(5_000);
    let rr = rec::run_streamed(sched, cfg, body, move |f| {
        if let Some(w) = slot.lock().unwrap().take() {
            w.forget_endpoints();
        }
        c2.borrow_mut().push(f.log);
    });
    let v = std::mem::take(&mut *collected.borrow_mut());
    (v, rr.term)
}

/// Wilson–Hilferty upper quantile of chi-square for a one-sided error probability of about 1e-9
/// (z = 6.2; the approximation errs on the large side for small df, which only makes the test laxer).
pub fn chi2_crit(df: usize) -> f64 {
    let d = df as f64;
    let z = 6.2f64;
    let t = 1.0 - 2.0 / (9.0 * d) + z * (2.0 / (9.0 * d)).sqrt();
    d * t * t * t
}

/// (a) same seed ⇒ same sequence of executions; (b) iteration i reproduced from its reported seed.
fn determinism(prog: &Prog, seed: u64, iters: usize, acc: &mut Acc, label: &str) {
    let wit = |extra: serde_json::Value| json!({"family": label, "sched_seed": seed, "program": prog.describe(), "detail": extra});
    for kind in ["random", "urw"] {
        let mk = |s: u64, n: usize| -> Box<dyn Scheduler + Send> {
            if kind == "random" {
                Box::new(RandomScheduler::new_from_seed(s, n))
            } else {
                Box::new(UrwRandomScheduler::new_from_seed(s, n))
            }
        };
        let (a, ta) = run_logs(prog, mk(seed, iters));
        let (b, tb) = run_logs(prog, mk(seed, iters));
        acc.evaluations += (a.len() + b.len()) as u64;
        acc.add("determinism_pairs", 1);
        for l in &a {
            if rec::nontrivial(l) {
                acc.distinct.insert(rec::hash_choices(l));
            }
        }
        if a.len() != b.len() || ta != tb {
            acc.violation(&format!("same-seed-differs:{kind}"), format!("two runs from seed {seed}: {} vs {} executions, ended {:?} vs {:?}", a.len(), b.len(), ta, tb), wit(json!(null)));
        } else {
            for (i, (x, y)) in a.iter().zip(b.iter()).enumerate() {
                if x.seed != y.seed {
                    acc.violation(&format!("same-seed-differs:{kind}"), format!("execution {i}: data seeds {:?} vs {:?}", x.seed, y.seed), wit(json!(null)));
                    break;
                }
                if let Some((j, d)) = first_diff(&signature(x), &signature(y)) {
                    acc.violation(&format!("same-seed-differs:{kind}"), format!("execution {i} differs at event {j}: {d}"), wit(json!(null)));
                    break;
                }
            }
        }
        // a different seed should (for programs with real choices) eventually give a different run;
        // not judged per program, only counted
        if kind == "random" {
            // (b) every iteration reproduced alone from the seed the scheduler reported for it
            let idxs: Vec<usize> = if a.len() <= 6 { (0..a.len()).collect() } else { vec![0, 1, 2, a.len() / 2, a.len() - 2, a.len() - 1] };
            for i in idxs {
                let Some(s_i) = a[i].seed else { continue };
                let (c, _) = run_logs(prog, RandomScheduler::new_from_seed(s_i, 1));
                acc.evaluations += 1;
                acc.add("iterations_reproduced_from_reported_seed", 1);
                if c.len() != 1 {
                    acc.violation("reported-seed-run-count", format!("RandomScheduler::new_from_seed(reported seed, 1) ran {} executions", c.len()), wit(json!({"iteration": i})));
                    continue;
                }
                if let Some((j, d)) = first_diff(&signature(&a[i]), &signature(&c[0])) {
                    let kind = match signature(&a[i]).get(j) {
                        Some(Sig::R(_)) => "draws",
                        _ => "schedule",
                    };
                    acc.violation(
                        &format!("reported-seed-does-not-reproduce:{kind}"),
                        format!("iteration {i} (reported seed {s_i}) is not reproduced by check_random_with_seed(f, {s_i}, 1): event {j}: {d}"),
                        wit(json!({"iteration": i})),
                    );
                }
            }
        }
    }
    if acc.samples.len() < 2 {
        acc.samples.push(json!({"kind": "determinism", "family": label, "sched_seed": seed, "program": prog.describe()}));
    }
}

/// (c) uniformity of the chosen position and independence from the previous choice.
fn uniformity(ntasks: usize, nops: usize, seed: u64, iters: usize, acc: &mut Acc) {
    let mut tasks = vec![vec![]];
    for c in 1..=ntasks {
        tasks[0].push(Op::Spawn(c));
        tasks.push((0..nops).map(|_| Op::FetchAdd(0, 1)).collect());
    }
    let prog = Prog { objs: vec![Obj::Atomic(0)], tasks, senders: vec![], receivers: vec![] };
    let (logs, term) = run_logs(&prog, RandomScheduler::new_from_seed(seed, iters));
    if term != Term::Pass {
        acc.notes.push(format!("uniformity workload ended {:?}", term));
        return;
    }
    acc.evaluations += logs.len() as u64;
    let mut counts: BTreeMap<usize, Vec<u64>> = BTreeMap::new();
    let mut lag: BTreeMap<usize, Vec<Vec<u64>>> = BTreeMap::new();
    for l in &logs {
        if rec::nontrivial(l) {
            acc.distinct.insert(rec::hash_choices(l));
        }
        let mut prev: Option<(usize, usize)> = None;
        for e in &l.events {
            if let Ev::Decision(d) = e {
                let n = d.offered.len();
                let Some(c) = d.choice else { continue };
                let pos = d.offered.iter().position(|o| o.0 == c).unwrap_or(0);
                if n >= 2 {
                    counts.entry(n).or_insert_with(|| vec![0; n])[pos] += 1;
                    if let Some((pn, pp)) = prev {
                        if pn == n {
                            lag.entry(n).or_insert_with(|| vec![vec![0; n]; n])[pp][pos] += 1;
                        }
                    }
                    prev = Some((n, pos));
                } else {
                    prev = None;
                }
            }
        }
    }
    let mut tested = 0u64;
    for (n, c) in &counts {
        let total: u64 = c.iter().sum();
        if total < 5_000 {
            continue;
        }
        tested += total;
        let exp = total as f64 / *n as f64;
        let chi: f64 = c.iter().map(|o| (*o as f64 - exp).powi(2) / exp).sum();
        acc.add("uniformity_decisions_tested", total);
        if chi > chi2_crit(n - 1) {
            acc.violation(
                "choice-not-uniform",
                format!("RandomScheduler: chosen position among {n} offered tasks over {total} decisions has counts {:?} (chi2 = {chi:.1}, rejection threshold {:.1} at p<1e-9)", c, chi2_crit(n - 1)),
                json!({"ntasks": ntasks, "nops": nops, "seed": seed, "counts": c}),
            );
        }
    }
    for (n, t) in &lag {
        let total: u64 = t.iter().flatten().sum();
        if total < 20_000 {
            continue;
        }
        let rows: Vec<f64> = t.iter().map(|r| r.iter().sum::<u64>() as f64).collect();
        let cols: Vec<f64> = (0..*n).map(|j| t.iter().map(|r| r[j]).sum::<u64>() as f64).collect();
        let mut chi = 0.0;
        for i in 0..*n {
            for j in 0..*n {
                let e = rows[i] * cols[j] / total as f64;
                if e > 0.0 {
                    chi += (t[i][j] as f64 - e).powi(2) / e;
                }
            }
        }
        let df = (n - 1) * (n - 1);
        acc.add("independence_pairs_tested", total);
        if chi > chi2_crit(df) {
            acc.violation(
                "choice-depends-on-history",
                format!("RandomScheduler: position chosen among {n} tasks is not independent of the previous choice ({total} consecutive pairs, chi2 = {chi:.1}, threshold {:.1} at p<1e-9)", chi2_crit(df)),
                json!({"ntasks": ntasks, "nops": nops, "seed": seed, "table": t}),
            );
        }
    }
    if tested == 0 {
        acc.notes.push("uniformity: too few decisions to test".into());
    }
    if acc.samples.len() < 3 {
        acc.samples.push(json!({"kind": "uniformity", "tasks": ntasks, "ops_per_task": nops, "counts": counts}));
    }
}

/// (d) every schedule of a small program is eventually visited (bounded form).
fn coverage(prog: &Prog, seed: u64, acc: &mut Acc, label: &str) {
    // enumerate the tree with probabilities
    let (body, slot) = body_of(prog);
    let leaves: Rc<RefCell<Vec<(Vec<u32>, f64)>>> = Rc::new(RefCell::new(vec![]));
    let failed = Rc::new(RefCell::new(false));
    let (l2, f2) = (leaves.clone(), failed.clone());
    let out = explore::enumerate(body, rec::base_config(), 400, move |f, term| {
        if let Some(w) = slot.lock().unwrap().take() {
            w.forget_endpoints();
        }
        if term != Term::Pass {
            *f2.borrow_mut() = true;
        }
        let mut p = 1.0f64;
        for e in &f.log.events {
            if let Ev::Decision(d) = e {
                p /= d.offered.len() as f64;
            }
        }
        l2.borrow_mut().push((rec::choice_seq(&f.log), p));
    });
    if !out.complete || *failed.borrow() {
        return;
    }
    let leaves = leaves.borrow().clone();
    if leaves.len() < 2 || leaves.len() > 200 {
        return;
    }
    let pmin = leaves.iter().map(|l| l.1).fold(1.0, f64::min);
    let n_iter = (45.0 / pmin).ceil() as usize;
    if n_iter > 150_000 {
        acc.add("coverage_trees_skipped_too_improbable", 1);
        return;
    }
    let (logs, term) = run_logs(prog, RandomScheduler::new_from_seed(seed, n_iter));
    acc.evaluations += logs.len() as u64;
    acc.add("coverage_trees", 1);
    if term != Term::Pass {
        return;
    }
    let seen: BTreeSet<Vec<u32>> = logs.iter().map(rec::choice_seq).collect();
    for s in &seen {
        acc.distinct.insert(crate::util::hash64(&s.iter().flat_map(|x| x.to_le_bytes()).collect::<Vec<u8>>()));
    }
    let missing: Vec<&(Vec<u32>, f64)> = leaves.iter().filter(|l| !seen.contains(&l.0)).collect();
    if let Some(m) = missing.first() {
        acc.violation(
            "schedule-never-visited",
            format!("{} of {} schedules of a small program were never visited in {n_iter} random iterations (each has probability ≥ {pmin:.2e}; miss probability < 1e-17); e.g. {:?}", missing.len(), leaves.len(), m.0),
            json!({"family": label, "program": prog.describe(), "sched_seed": seed}),
        );
    }
    let foreign = seen.iter().find(|s| !leaves.iter().any(|l| &l.0 == *s));
    if let Some(s) = foreign {
        acc.violation("schedule-not-in-tree", format!("random run executed {:?} which the exhaustive enumeration of the same body never produced", s), json!({"family": label, "program": prog.describe()}));
    }
}

/// (e) URW gives every offered task positive probability: at every choice prefix visited often,
/// every offered task was chosen at least once.
fn urw_positive(prog: &Prog, seed: u64, iters: usize, acc: &mut Acc, label: &str) {
    let (logs, term) = run_logs(prog, UrwRandomScheduler::new_from_seed(seed, iters));
    acc.evaluations += logs.len() as u64;
    if term != Term::Pass {
        return;
    }
    // prefix -> (visits, offered, chosen set); skip the first (estimation) execution
    let mut map: BTreeMap<Vec<u32>, (u64, Vec<usize>, BTreeSet<usize>)> = BTreeMap::new();
    let mut total_events = 1usize;
    for l in logs.iter().skip(1) {
        let mut prefix: Vec<u32> = vec![];
        let mut n = 0;
        for e in &l.events {
            if let Ev::Decision(d) = e {
                n += 1;
                if let Some(c) = d.choice {
                    if prefix.len() <= 6 {
                        let ent = map.entry(prefix.clone()).or_insert_with(|| (0, d.offered.iter().map(|o| o.0).collect(), BTreeSet::new()));
                        ent.0 += 1;
                        ent.2.insert(c);
                    }
                    prefix.push(c as u32);
                }
            }
        }
        total_events = total_events.max(n);
    }
    // P(an offered task with weight ≥ 1 of ≤ total_events never chosen in v visits) ≤ (1-1/W)^v
    let need = (45.0 * total_events as f64).ceil() as u64;
    for (prefix, (visits, offered, chosen)) in &map {
        if *visits < need || offered.len() < 2 {
            continue;
        }
        acc.add("urw_prefixes_tested", 1);
        for o in offered {
            if !chosen.contains(o) {
                acc.violation(
                    "urw-task-never-chosen",
                    format!("URW: after choice prefix {:?} (visited {visits} times) task {o} was offered every time but never chosen (offered {:?})", prefix, offered),
                    json!({"family": label, "program": prog.describe(), "sched_seed": seed}),
                );
            }
        }
    }
}

pub fn run(r: &mut Report) {
    let mut rng = Rng::new(r.seed ^ 0xC10);
    let per_family = if r.quick() { 3 } else { 25 };
    let iters = if r.quick() { 30 } else { 150 };
    let mut items: Vec<(String, Prog, u64)> = vec![];
    for f in gen::ALL_FAMILIES {
        for i in 0..per_family {
            let mut g = rng.fork();
            let p = super::c01::with_rand(gen::generate(*f, &mut g, 1 + i % 2), &mut g);
            items.push((format!("{f:?}/{i}"), p, rng.next()));
        }
    }
    let n_det = items.len();
    // coverage bodies: tiny programs
    let mut cov: Vec<(String, Prog, u64)> = vec![];
    for f in [Family::Atomics, Family::Mutex, Family::Once, Family::ChanUnbounded, Family::Barrier] {
        for i in 0..(if r.quick() { 4 } else { 20 }) {
            let mut g = rng.fork();
            cov.push((format!("cov:{f:?}/{i}"), gen::generate(f, &mut g, 0), rng.next()));
        }
    }
    let n_cov = cov.len();
    let uni: Vec<(usize, usize, u64)> = vec![(2, 12, rng.next()), (3, 8, rng.next()), (4, 6, rng.next()), (5, 4, rng.next())];
    let uni_iters = if r.quick() { 12_000 } else { 300_000 };
    let urw_iters = if r.quick() { 6_000 } else { 100_000 };
    let total = n_det + n_cov + uni.len() + n_cov;
    let accs = oracle::parallel(total, oracle::workers(), |i, acc| {
        if i < n_det {
            let (label, p, s) = &items[i];
            determinism(p, *s, iters, acc, label);
        } else if i < n_det + n_cov {
            let (label, p, s) = &cov[i - n_det];
            coverage(p, *s, acc, label);
        } else if i < n_det + n_cov + uni.len() {
            let (nt, no, s) = uni[i - n_det - n_cov];
            uniformity(nt, no, s, uni_iters, acc);
        } else {
            let (label, p, s) = &cov[i - n_det - n_cov - uni.len()];
            urw_positive(p, *s, urw_iters, acc, label);
        }
    });
    for a in accs {
        a.merge_into(r);
    }
    r.rule = "(a) programs of every family run twice from the same seed under RandomScheduler and UrwRandomScheduler: identical seeds, decisions, draws, results; (b) iterations 0,1,2,mid,last-1,last of a random run re-run alone through RandomScheduler::new_from_seed(reported seed, 1): identical incl. draws; (c) k∈{2..5} symmetric tasks: chi-square goodness of fit of the chosen position per offered-list length and lag-1 contingency test, rejection at p<1e-9; (d) tiny programs with ≤200 schedules: every leaf found by the independent enumerator visited within ceil(45/p_min) iterations; (e) URW: at every choice prefix visited ≥45·events times every offered task was chosen at least once. evaluations = executions; distinct_nontrivial = distinct choice sequences with a real choice".into();
    r.assumptions = vec!["SHUTTLE_RANDOM_SEED is unset by ./check".into(), "statistical tests reject only at p<1e-9".into()];
}
