//! C04, poisoning clause: "a lock released by a panicking holder is seen as poisoned".
//!
//! A panic that escapes a task fails the whole execution (C12), so poisoning is observable only
//! where the panic is caught inside the task that holds the guard. Scenario programs: one or two
//! "panickers" take a lock, bump the protected counter, optionally yield, and panic inside
//! `catch_unwind`; observers lock/try-lock/read/write around them and record (counter seen, poisoned?).
//! Oracle per observation, on every schedule of the exhaustively enumerated tree:
//!   * Mutex / RwLock-write panicker: the lock is reported poisoned  ⇔  a panicker has held it
//!     before (the counter tells), until `clear_poison` (then not poisoned again);
//!   * a panicking *reader* never poisons an RwLock (as in std);
//!   * `is_poisoned()` agrees; try-variants report `Poisoned` rather than `WouldBlock` when free;
//!   * exclusion still holds and nobody deadlocks (the guard is released by the unwinding holder).
use crate::explore;
use crate::oracle::Acc;
use crate::rec::{self, body_event, Ev, Term};
use serde_json::json;
use shuttle::sync::{Mutex, RwLock};
use std::cell::RefCell;
use std::panic::{catch_unwind, AssertUnwindSafe};
use std::rc::Rc;
use std::sync::Arc;

#[derive(Clone, Copy, Debug, PartialEq)]
pub enum Kind {
    Mutex,
    RwWriterPanics,
    RwReaderPanics,
}

#[derive(Clone, Copy, Debug)]
pub struct Scen {
    pub kind: Kind,
    pub panickers: usize,
    pub observers: usize,
    pub yield_in_cs: bool,
    pub clear: bool,
    pub use_try: bool,
}

const T_OBS: u32 = 7100; // a = counter seen (or -1 for would-block), b = poisoned as reported by the acquisition
#[allow(dead_code)]
const T_ISP: u32 = 7101; // (shuttle has no is_poisoned(); kept for the judge)
const T_CLR: u32 = 7102; // clear_poison done while holding the lock, a = counter
const T_PANICKED: u32 = 7103;
const T_ENTRY: u32 = 7104; // a = std::thread::panicking() when the body starts

fn body(sc: Scen) {
    body_event(T_ENTRY, std::thread::panicking() as i64, 0);
    let m = Arc::new(Mutex::new(0i64));
    let l = Arc::new(RwLock::new(0i64));
    let mut hs = vec![];
    for _ in 0..sc.panickers {
        let (m, l) = (m.clone(), l.clone());
        hs.push(shuttle::thread::spawn(move || {
            let r = catch_unwind(AssertUnwindSafe(|| match sc.kind {
                Kind::Mutex => {
                    let mut g = match m.lock() {
                        Ok(g) => g,
                        Err(p) => p.into_inner(),
                    };
                    *g += 1;
                    if sc.yield_in_cs {
                        shuttle::thread::yield_now();
                    }
                    panic!("deliberate panic while holding the mutex");
                }
                Kind::RwWriterPanics => {
                    let mut g = match l.write() {
                        Ok(g) => g,
                        Err(p) => p.into_inner(),
                    };
                    *g += 1;
                    if sc.yield_in_cs {
                        shuttle::thread::yield_now();
                    }
                    panic!("deliberate panic while holding the write lock");
                }
                Kind::RwReaderPanics => {
                    let g = match l.read() {
                        Ok(g) => g,
                        Err(p) => p.into_inner(),
                    };
                    let _v = *g;
                    if sc.yield_in_cs {
                        shuttle::thread::yield_now();
                    }
                    panic!("deliberate panic while holding a read lock");
                }
            }));
            body_event(T_PANICKED, r.is_err() as i64, 0);
        }));
    }
    for o in 0..sc.observers {
        let (m, l) = (m.clone(), l.clone());
        hs.push(shuttle::thread::spawn(move || {
            for round in 0..2 {
                match sc.kind {
                    Kind::Mutex => {
                        let (g, poisoned) = if sc.use_try && (o + round) % 2 == 0 {
                            match m.try_lock() {
                                Ok(g) => (Some(g), false),
                                Err(std::sync::TryLockError::Poisoned(p)) => (Some(p.into_inner()), true),
                                Err(std::sync::TryLockError::WouldBlock) => (None, false),
                            }
                        } else {
                            match m.lock() {
                                Ok(g) => (Some(g), false),
                                Err(p) => (Some(p.into_inner()), true),
                            }
                        };
                        match g {
                            Some(g) => {
                                body_event(T_OBS, *g, poisoned as i64);
                                if sc.clear && poisoned {
                                    m.clear_poison();
                                    body_event(T_CLR, *g, 0);
                                }
                            }
                            None => body_event(T_OBS, -1, 0),
                        }
                    }
                    Kind::RwWriterPanics | Kind::RwReaderPanics => {
                        // alternate read and write observations
                        if (o + round) % 2 == 0 {
                            let (g, poisoned) = if sc.use_try {
                                match l.try_read() {
                                    Ok(g) => (Some(g), false),
                                    Err(std::sync::TryLockError::Poisoned(p)) => (Some(p.into_inner()), true),
                                    Err(std::sync::TryLockError::WouldBlock) => (None, false),
                                }
                            } else {
                                match l.read() {
                                    Ok(g) => (Some(g), false),
                                    Err(p) => (Some(p.into_inner()), true),
                                }
                            };
                            match g {
                                Some(g) => {
                                    body_event(T_OBS, *g, poisoned as i64);
                                }
                                None => body_event(T_OBS, -1, 0),
                            }
                        } else {
                            let (g, poisoned) = if sc.use_try {
                                match l.try_write() {
                                    Ok(g) => (Some(g), false),
                                    Err(std::sync::TryLockError::Poisoned(p)) => (Some(p.into_inner()), true),
                                    Err(std::sync::TryLockError::WouldBlock) => (None, false),
                                }
                            } else {
                                match l.write() {
                                    Ok(g) => (Some(g), false),
                                    Err(p) => (Some(p.into_inner()), true),
                                }
                            };
                            match g {
                                Some(g) => {
                                    body_event(T_OBS, *g, poisoned as i64);
                                    if sc.clear && poisoned {
                                        l.clear_poison();
                                        body_event(T_CLR, *g, 0);
                                    }
                                }
                                None => body_event(T_OBS, -1, 0),
                            }
                        }
                    }
                }
            }
        }));
    }
    for h in hs {
        h.join().unwrap();
    }
}

/// Offline oracle over one execution's body events (they are in global order).
fn judge(sc: Scen, log: &rec::ExecLog) -> Vec<(String, String)> {
    let mut bad = vec![];
    // `cleared_at`: counter value at the last clear_poison; poison is expected iff a panicker held
    // the lock after that point. With sc.clear the holder that clears sees counter c; any later
    // panicker raises the counter above c.
    let mut cleared_at: i64 = 0;
    let mut panicked = 0usize;
    for e in &log.events {
        let Ev::Body { tag, a, b, .. } = e else { continue };
        match *tag {
            T_PANICKED => {
                panicked += 1;
                if *a != 1 {
                    bad.push(("panic-not-caught".into(), "catch_unwind around a deliberate panic returned Ok".into()));
                }
            }
            T_OBS => {
                if *a < 0 {
                    continue;
                }
                let expect = match sc.kind {
                    Kind::RwReaderPanics => false,
                    _ => *a > cleared_at,
                };
                if (*b == 1) != expect {
                    bad.push((
                        format!("poison-wrong:{:?}", sc.kind),
                        format!("an acquisition that saw the counter at {a} (last clear at {cleared_at}) reported poisoned={}, expected {expect}", *b == 1),
                    ));
                }
            }
            T_ISP => {
                let expect = match sc.kind {
                    Kind::RwReaderPanics => false,
                    _ => *b > cleared_at,
                };
                if (*a == 1) != expect {
                    bad.push((
                        format!("is_poisoned-wrong:{:?}", sc.kind),
                        format!("is_poisoned() returned {} while holding the lock with the counter at {b} (last clear at {cleared_at}), expected {expect}", *a == 1),
                    ));
                }
            }
            T_CLR => cleared_at = *a,
            _ => {}
        }
    }
    let _ = panicked;
    bad
}

pub fn scenarios() -> Vec<Scen> {
    let mut v = vec![];
    for kind in [Kind::Mutex, Kind::RwWriterPanics, Kind::RwReaderPanics] {
        for (panickers, observers) in [(1usize, 1usize), (1, 2), (2, 1)] {
            for yield_in_cs in [false, true] {
                for clear in [false, true] {
                    for use_try in [false, true] {
                        if kind == Kind::RwReaderPanics && clear {
                            continue;
                        }
                        v.push(Scen { kind, panickers, observers, yield_in_cs, clear, use_try });
                    }
                }
            }
        }
    }
    v
}

pub fn check(sc: Scen, cap: u64, acc: &mut Acc) {
    let bad: Rc<RefCell<Vec<(String, String, Vec<u32>)>>> = Rc::new(RefCell::new(vec![]));
    let n = Rc::new(RefCell::new(0u64));
    let obs = Rc::new(RefCell::new((0u64, 0u64))); // (observations, poisoned observations)
    let hashes: Rc<RefCell<Vec<u64>>> = Rc::new(RefCell::new(vec![]));
    let (b2, n2, h2, o2) = (bad.clone(), n.clone(), hashes.clone(), obs.clone());
    let mut cfg = rec::base_config();
    cfg.max_steps = shuttle::MaxSteps::FailAfter(5_000);
    let out = explore::enumerate(move || body(sc), cfg, cap, move |f, term| {
        *n2.borrow_mut() += 1;
        if rec::nontrivial(&f.log) {
            h2.borrow_mut().push(rec::hash_choices(&f.log));
        }
        for e in &f.log.events {
            if let Ev::Body { tag: T_OBS, a, b, .. } = e {
                if *a >= 0 {
                    o2.borrow_mut().0 += 1;
                    o2.borrow_mut().1 += *b as u64;
                }
            }
        }
        let choices = rec::choice_seq(&f.log);
        // did an earlier execution leave the OS thread's panic count raised?
        let entry_panicking = f.log.events.iter().any(|e| matches!(e, Ev::Body { tag: T_ENTRY, a: 1, .. }));
        thread_local! { static PREV: RefCell<Option<(String, Vec<u32>)>> = const { RefCell::new(None) }; static REPORTED: std::cell::Cell<bool> = const { std::cell::Cell::new(false) }; }
        if entry_panicking && !REPORTED.with(|r| r.get()) {
            REPORTED.with(|r| r.set(true));
            let prev = PREV.with(|p| p.borrow().clone());
            b2.borrow_mut().push(("panic-count-left-raised".into(), format!("std::thread::panicking() is already true when this execution's body starts; the previous execution on this thread ended {:?}", prev), choices.clone()));
        }
        PREV.with(|p| *p.borrow_mut() = Some((format!("{:?}", term), choices.clone())));
        if entry_panicking {
            return; // everything after this point is judged on a clean thread only
        }
        if b2.borrow().len() >= 3 {
            return;
        }
        match &term {
            Term::Pass => {}
            Term::Deadlock(_) => b2.borrow_mut().push((
                "caught-panic-strands-waiter".into(),
                format!("a program whose panics are all caught inside their tasks ended {:?}: the holder panicked while another task was blocked on the lock, and the waiter was never released", term),
                choices.clone(),
            )),
            Term::Panic(m) if m.contains("holder") || m.contains("AcquireError") || m.contains("resumed a waiting") || m.contains("while the lock was in state") => b2.borrow_mut().push((
                "caught-panic-internal-failure".into(),
                format!("a program whose panics are all caught inside their tasks failed inside the lock implementation: {m}"),
                choices.clone(),
            )),
            t => b2.borrow_mut().push(("poison-program-failed".into(), format!("a program whose panics are all caught inside their tasks ended {:?}", t), choices.clone())),
        }
        for (sig, what) in judge(sc, &f.log) {
            let evs: Vec<String> = f
                .log
                .events
                .iter()
                .filter_map(|e| if let Ev::Body { task, tag, a, b } = e { Some(format!("t{task}:{}({a},{b})", match *tag { T_ENTRY => "entry-panicking", T_OBS => "obs", T_CLR => "clear", T_PANICKED => "panicked", _ => "?" })) } else { None })
                .collect();
            b2.borrow_mut().push((sig, format!("{what}; events in order: {}", evs.join(" ")), choices.clone()));
        }
        for (sig, what) in rec::contract_check(&f.log, Some(&f.runtime_schedule)) {
            b2.borrow_mut().push((format!("C08:{sig}"), what, choices.clone()));
        }
    });
    acc.evaluations += *n.borrow();
    acc.distinct.extend(hashes.borrow().iter().copied());
    acc.add("poison_scenarios", 1);
    acc.add("poison_observations", obs.borrow().0);
    acc.add("poison_observations_reported_poisoned", obs.borrow().1);
    if out.complete {
        acc.add("poison_scenarios_completely_enumerated", 1);
    }
    for (sig, what, choices) in bad.borrow().iter() {
        acc.violation(sig, what.clone(), json!({"scenario": format!("{:?}", sc), "choices": choices}));
    }
    if acc.samples.len() < 2 {
        acc.samples.push(json!({"kind": "poison", "scenario": format!("{:?}", sc), "executions": *n.borrow(), "complete": out.complete}));
    }
}

// ---------------------------------------------------------------------------------------------
// C06, disconnection clause, with the other side dropped by a panic that is caught inside its task:
// "once the other side is gone send fails and recv drains the remaining messages before reporting
// disconnection; a blocked sender or receiver is always released when a disconnection arrives".

#[derive(Clone, Copy, Debug, PartialEq)]
pub enum ChanScen {
    /// the receiver is dropped by a caught panic; afterwards send must fail
    RxDroppedThenSend,
    /// the only sender is dropped by a caught panic after sending k messages; recv must drain them and then report disconnection
    TxDroppedThenRecv(usize),
    /// a sender blocked on a full bounded channel must be released (with an error) when the receiver goes away
    BlockedSenderRxDropped,
    /// a receiver blocked on an empty channel must be released when the last sender goes away
    BlockedReceiverTxDropped,
}

const T_CH: u32 = 7200; // a = code, b = value

fn chan_body(sc: ChanScen) {
    use shuttle::sync::mpsc::{channel, sync_channel};
    match sc {
        ChanScen::RxDroppedThenSend => {
            let (tx, rx) = channel::<i64>();
            let t = shuttle::thread::spawn(move || {
                let r = catch_unwind(AssertUnwindSafe(move || {
                    let _rx = rx;
                    panic!("deliberate panic that owns the receiver");
                }));
                body_event(T_PANICKED, r.is_err() as i64, 0);
            });
            t.join().unwrap();
            body_event(T_CH, 1, tx.send(5).is_err() as i64);
        }
        ChanScen::TxDroppedThenRecv(k) => {
            let (tx, rx) = channel::<i64>();
            let t = shuttle::thread::spawn(move || {
                let r = catch_unwind(AssertUnwindSafe(move || {
                    let tx = tx;
                    for i in 0..k {
                        tx.send(10 + i as i64).unwrap();
                    }
                    panic!("deliberate panic that owns the sender");
                }));
                body_event(T_PANICKED, r.is_err() as i64, 0);
            });
            for i in 0..k {
                body_event(T_CH, 2, (rx.recv() == Ok(10 + i as i64)) as i64);
            }
            body_event(T_CH, 3, rx.recv().is_err() as i64);
            t.join().unwrap();
        }
        ChanScen::BlockedSenderRxDropped => {
            let (tx, rx) = sync_channel::<i64>(1);
            tx.send(1).unwrap();
            let s = shuttle::thread::spawn(move || {
                // blocks: the channel is full
                body_event(T_CH, 4, tx.send(2).is_err() as i64);
            });
            let t = shuttle::thread::spawn(move || {
                let r = catch_unwind(AssertUnwindSafe(move || {
                    let _rx = rx;
                    shuttle::thread::yield_now();
                    panic!("deliberate panic that owns the receiver");
                }));
                body_event(T_PANICKED, r.is_err() as i64, 0);
            });
            t.join().unwrap();
            s.join().unwrap();
        }
        ChanScen::BlockedReceiverTxDropped => {
            let (tx, rx) = channel::<i64>();
            let t = shuttle::thread::spawn(move || {
                let r = catch_unwind(AssertUnwindSafe(move || {
                    let _tx = tx;
                    shuttle::thread::yield_now();
                    panic!("deliberate panic that owns the sender");
                }));
                body_event(T_PANICKED, r.is_err() as i64, 0);
            });
            body_event(T_CH, 3, rx.recv().is_err() as i64);
            t.join().unwrap();
        }
    }
}

pub fn chan_scenarios() -> Vec<ChanScen> {
    vec![ChanScen::RxDroppedThenSend, ChanScen::TxDroppedThenRecv(0), ChanScen::TxDroppedThenRecv(2), ChanScen::BlockedSenderRxDropped, ChanScen::BlockedReceiverTxDropped]
}

pub fn check_chan(sc: ChanScen, cap: u64, acc: &mut Acc) {
    let bad: Rc<RefCell<Vec<(String, String, Vec<u32>)>>> = Rc::new(RefCell::new(vec![]));
    let n = Rc::new(RefCell::new(0u64));
    let hashes: Rc<RefCell<Vec<u64>>> = Rc::new(RefCell::new(vec![]));
    let (b2, n2, h2) = (bad.clone(), n.clone(), hashes.clone());
    let mut cfg = rec::base_config();
    cfg.max_steps = shuttle::MaxSteps::FailAfter(5_000);
    let out = explore::enumerate(move || chan_body(sc), cfg, cap, move |f, term| {
        *n2.borrow_mut() += 1;
        if rec::nontrivial(&f.log) {
            h2.borrow_mut().push(rec::hash_choices(&f.log));
        }
        if b2.borrow().len() >= 3 || std::thread::panicking() {
            return;
        }
        let choices = rec::choice_seq(&f.log);
        let side = match sc {
            ChanScen::RxDroppedThenSend | ChanScen::BlockedSenderRxDropped => "receiver",
            _ => "sender",
        };
        match &term {
            Term::Pass => {}
            Term::Deadlock(_) => b2.borrow_mut().push((
                format!("caught-panic-endpoint-drop-ignored:{side}"),
                format!("{:?}: the {side} was dropped by a panic caught inside its task, but the task waiting for the disconnection was never released: {:?}", sc, term),
                choices.clone(),
            )),
            t => b2.borrow_mut().push(("channel-program-failed".into(), format!("{:?} ended {:?}", sc, t), choices.clone())),
        }
        for e in &f.log.events {
            if let Ev::Body { tag: T_CH, a, b, .. } = e {
                if *b != 1 {
                    let what = match *a {
                        1 => "send succeeded although the receiver had been dropped",
                        2 => "a message sent before the sender was dropped was not received in order",
                        3 => "recv did not report disconnection after the last sender had been dropped",
                        _ => "a sender blocked on a full channel was released without an error after the receiver had been dropped",
                    };
                    b2.borrow_mut().push((format!("caught-panic-endpoint-drop-ignored:{side}"), format!("{:?}: the {side} was dropped by a panic caught inside its task: {what}", sc), choices.clone()));
                }
            }
        }
    });
    acc.evaluations += *n.borrow();
    acc.distinct.extend(hashes.borrow().iter().copied());
    acc.add("caught_panic_channel_scenarios", 1);
    if out.complete {
        acc.add("caught_panic_channel_scenarios_completely_enumerated", 1);
    }
    for (sig, what, choices) in bad.borrow().iter() {
        acc.violation(sig, what.clone(), json!({"scenario": format!("{:?}", sc), "choices": choices}));
    }
}
