//! C12: failures surface to the caller with a schedule that reproduces them, in the configured
//! way, regardless of what ran earlier in the process. Everything runs in child processes because
//! the state involved (panic hook, per-thread persistence marker) is process/thread global.
use crate::oracle::{self, Acc};
use crate::util::{Report, Rng};
use serde_json::json;
use shuttle::scheduler::*;
use shuttle::sync::atomic::{AtomicUsize, Ordering};
use shuttle::sync::{Arc, Mutex};
use std::process::Command;

#[derive(Debug)]
pub struct Marker(pub u64);

#[derive(Clone, Copy, Debug, PartialEq, Eq)]
pub enum Scenario {
    PanicMain,
    PanicThread,
    PanicFuture,
    PanicHoldingLock,
    Deadlock,
    StepBound,
    /// a task panics while another, unfinished task owns a thread-local whose destructor uses Shuttle
    PanicWithTls,
    Pass,
}

struct TouchesTls;
impl Drop for TouchesTls {
    fn drop(&mut self) {
        let _ = TLB.try_with(|x| *x);
    }
}
shuttle::thread_local! {
    static TLA: TouchesTls = TouchesTls;
    static TLB: u32 = 5;
}

impl Scenario {
    pub fn parse(s: &str) -> Scenario {
        match s {
            "panic-main" => Scenario::PanicMain,
            "panic-thread" => Scenario::PanicThread,
            "panic-future" => Scenario::PanicFuture,
            "panic-lock" => Scenario::PanicHoldingLock,
            "deadlock" => Scenario::Deadlock,
            "step-bound" => Scenario::StepBound,
            "panic-tls" => Scenario::PanicWithTls,
            _ => Scenario::Pass,
        }
    }
    pub fn name(&self) -> &'static str {
        match self {
            Scenario::PanicMain => "panic-main",
            Scenario::PanicThread => "panic-thread",
            Scenario::PanicFuture => "panic-future",
            Scenario::PanicHoldingLock => "panic-lock",
            Scenario::Deadlock => "deadlock",
            Scenario::StepBound => "step-bound",
            Scenario::PanicWithTls => "panic-tls",
            Scenario::Pass => "pass",
        }
    }
}

/// Bodies that fail on some schedules only, so that the emitted schedule matters.
pub fn body(sc: Scenario, salt: u64) {
    let x = Arc::new(AtomicUsize::new(0));
    match sc {
        Scenario::Pass => {
            let x2 = x.clone();
            let h = shuttle::thread::spawn(move || {
                x2.fetch_add(1, Ordering::SeqCst);
            });
            x.fetch_add(1, Ordering::SeqCst);
            h.join().unwrap();
        }
        Scenario::PanicMain => {
            let x2 = x.clone();
            let h = shuttle::thread::spawn(move || {
                x2.store(1, Ordering::SeqCst);
                x2.store(2, Ordering::SeqCst);
            });
            // fails only if main reads between the two stores
            if x.load(Ordering::SeqCst) == 1 {
                std::panic::panic_any(Marker(1000 + salt));
            }
            h.join().unwrap();
        }
        Scenario::PanicThread => {
            let x2 = x.clone();
            let h = shuttle::thread::spawn(move || {
                if x2.load(Ordering::SeqCst) == 1 {
                    std::panic::panic_any(Marker(2000 + salt));
                }
            });
            x.store(1, Ordering::SeqCst);
            x.store(2, Ordering::SeqCst);
            let _ = h.join();
        }
        Scenario::PanicFuture => {
            let x2 = x.clone();
            let h = shuttle::future::spawn(async move {
                shuttle::future::yield_now().await;
                if x2.load(Ordering::SeqCst) == 1 {
                    std::panic::panic_any(Marker(3000 + salt));
                }
            });
            x.store(1, Ordering::SeqCst);
            x.store(2, Ordering::SeqCst);
            let _ = shuttle::future::block_on(h);
        }
        Scenario::PanicHoldingLock => {
            let m = Arc::new(Mutex::new(0u32));
            let (x2, m2) = (x.clone(), m.clone());
            let h = shuttle::thread::spawn(move || {
                let _g = m2.lock().unwrap();
                if x2.load(Ordering::SeqCst) == 1 {
                    std::panic::panic_any(Marker(4000 + salt));
                }
            });
            x.store(1, Ordering::SeqCst);
            x.store(2, Ordering::SeqCst);
            let _ = m.lock();
            let _ = h.join();
        }
        Scenario::Deadlock => {
            let a = Arc::new(Mutex::new(0u32));
            let b = Arc::new(Mutex::new(0u32));
            let (a2, b2) = (a.clone(), b.clone());
            let h = shuttle::thread::spawn(move || {
                let _ga = a2.lock().unwrap();
                let _gb = b2.lock().unwrap();
            });
            {
                let _gb = b.lock().unwrap();
                let _ga = a.lock().unwrap();
            }
            h.join().unwrap();
        }
        Scenario::PanicWithTls => {
            let x2 = x.clone();
            let h = shuttle::thread::spawn(move || {
                TLA.with(|_| ());
                let _ = x2.compare_exchange(0, 1, Ordering::SeqCst, Ordering::SeqCst);
                // stays alive (blocked) while main fails
                while x2.load(Ordering::SeqCst) != 2 {
                    shuttle::thread::park();
                }
            });
            if x.load(Ordering::SeqCst) == 1 {
                std::panic::panic_any(Marker(5000 + salt));
            }
            x.store(2, Ordering::SeqCst);
            h.thread().unpark();
            h.join().unwrap();
        }
        Scenario::StepBound => {
            let x2 = x.clone();
            let h = shuttle::thread::spawn(move || {
                x2.store(1, Ordering::SeqCst);
            });
            // spin until the store is visible: unfair schedules exceed the bound
            while x.load(Ordering::SeqCst) == 0 {
                shuttle::thread::yield_now();
            }
            h.join().unwrap();
        }
    }
}

fn outcome_of(r: Result<usize, Box<dyn std::any::Any + Send>>) -> String {
    match r {
        Ok(n) => format!("pass:{n}"),
        Err(p) => {
            if let Some(m) = p.downcast_ref::<Marker>() {
                format!("marker:{}", m.0)
            } else {
                let msg = crate::util::panic_message(&p);
                if msg.starts_with("deadlock! blocked tasks:") {
                    format!("deadlock:{}", msg.len())
                } else if msg.starts_with("exceeded max_steps bound") {
                    "step-bound".to_string()
                } else {
                    format!("other:{}", msg.chars().take(80).collect::<String>())
                }
            }
        }
    }
}

fn config(mode: &str, dir: &str, sc: Scenario) -> shuttle::Config {
    let mut c = shuttle::Config::new();
    c.failure_persistence = match mode {
        "N" => shuttle::FailurePersistence::None,
        "F" => shuttle::FailurePersistence::File(Some(std::path::PathBuf::from(dir))),
        _ => shuttle::FailurePersistence::Print,
    };
    c.max_steps = if sc == Scenario::StepBound { shuttle::MaxSteps::FailAfter(12) } else { shuttle::MaxSteps::FailAfter(10_000) };
    c
}

/// Child entry: `verif c12child <dir> <seed> <run>...` with run = `<mode>:<scenario>:<s|o>`;
/// the last run is the target.
pub fn child(args: &[String]) {
    let dir = args[0].clone();
    let seed: u64 = args[1].parse().unwrap_or(1);
    for (i, spec) in args[2..].iter().enumerate() {
        let parts: Vec<&str> = spec.split(':').collect();
        let (mode, sc, thr) = (parts[0].to_string(), Scenario::parse(parts[1]), parts[2] == "o");
        eprintln!("=== C12 RUN {i} BEGIN {spec}");
        let d2 = dir.clone();
        let job = move || {
            let cfg = config(&mode, &d2, sc);
            // passing predecessors use few iterations; failing ones need enough to hit the failure
            let iters = 400;
            let sched = RandomScheduler::new_from_seed(seed.wrapping_add(i as u64), iters);
            let runner = shuttle::Runner::new(sched, cfg);
            let salt = i as u64;
            outcome_of(std::panic::catch_unwind(std::panic::AssertUnwindSafe(move || runner.run(move || body(sc, salt)))))
        };
        let out = if thr { std::thread::spawn(job).join().unwrap_or_else(|_| "thread-panicked".into()) } else { job() };
        eprintln!("=== C12 RUN {i} END");
        println!("C12RUN {i} {spec} {out}");
    }
}

/// Child entry: `verif c12replay <scenario> <salt> <file-or-text> <is_file>`: replays and prints the outcome.
pub fn replay_child(args: &[String]) {
    let sc = Scenario::parse(&args[0]);
    let salt: u64 = args[1].parse().unwrap_or(0);
    let is_file = args[3] == "1";
    let cfg = {
        let mut c = config("N", "", sc);
        c.failure_persistence = shuttle::FailurePersistence::None;
        c
    };
    let sched = if is_file {
        ReplayScheduler::new_from_file(&args[2]).expect("open schedule file")
    } else {
        ReplayScheduler::new_from_encoded(&args[2])
    };
    let runner = shuttle::Runner::new(sched, cfg);
    let out = outcome_of(std::panic::catch_unwind(std::panic::AssertUnwindSafe(move || runner.run(move || body(sc, salt)))));
    println!("C12REPLAY {out}");
}

/// Child entry: `verif c12portfolio <scenario...>`: a portfolio of two members with the given bodies' scenario.
/// One-iteration scheduler that always runs the offered task with the lowest (`max == false`) or the
/// highest (`max == true`) id: on `order_body` the first passes and the second fails, deterministically.
struct Extreme {
    max: bool,
    done: bool,
}
impl Scheduler for Extreme {
    fn new_execution(&mut self) -> Option<Schedule> {
        if self.done {
            None
        } else {
            self.done = true;
            Some(Schedule::new(1))
        }
    }
    fn next_task(&mut self, runnable: &[&Task], _c: Option<TaskId>, _y: bool) -> Option<TaskId> {
        let it = runnable.iter().filter(|t| t.runnable()).map(|t| t.id());
        if self.max {
            it.max()
        } else {
            it.min()
        }
    }
    fn next_u64(&mut self) -> u64 {
        0
    }
}

fn order_body() {
    let flag = Arc::new(std::sync::atomic::AtomicBool::new(false));
    let f2 = flag.clone();
    let h = shuttle::thread::spawn(move || f2.store(true, std::sync::atomic::Ordering::SeqCst));
    shuttle::thread::yield_now();
    if flag.load(std::sync::atomic::Ordering::SeqCst) {
        std::panic::panic_any(Marker(4242));
    }
    h.join().unwrap();
}

/// `c12portfolio2 <members, e.g. "fp" = failing then passing> <stop 0|1>`
pub fn portfolio2_child(args: &[String]) {
    let stop = args[1] == "1";
    let mut cfg = config("N", "", Scenario::Pass);
    cfg.failure_persistence = shuttle::FailurePersistence::None;
    let mut pr = shuttle::PortfolioRunner::new(stop, cfg);
    for c in args[0].chars() {
        pr.add(Extreme { max: c == 'f', done: false });
    }
    let r = std::panic::catch_unwind(std::panic::AssertUnwindSafe(move || {
        pr.run(order_body);
        0usize
    }));
    println!("C12PORTFOLIO {}", outcome_of(r));
}

pub fn portfolio_child(args: &[String]) {
    let sc = Scenario::parse(&args[0]);
    let stop = args[1] == "1";
    let mut cfg = config("N", "", sc);
    cfg.failure_persistence = shuttle::FailurePersistence::None;
    let mut pr = shuttle::PortfolioRunner::new(stop, cfg);
    pr.add(RandomScheduler::new_from_seed(11, 300));
    pr.add(PctScheduler::new_from_seed(12, 2, 300));
    let r = std::panic::catch_unwind(std::panic::AssertUnwindSafe(move || {
        pr.run(move || body(sc, 0));
        0usize
    }));
    println!("C12PORTFOLIO {}", outcome_of(r));
}

struct ChildOut {
    stdout: String,
    stderr: String,
    status: Option<i32>,
}

fn spawn(args: &[String]) -> ChildOut {
    let exe = crate::util::self_exe();
    let out = Command::new(exe).args(args).env_remove("SHUTTLE_RANDOM_SEED").env("VERIF_STDERR", "keep").output();
    match out {
        Ok(o) => ChildOut {
            stdout: String::from_utf8_lossy(&o.stdout).to_string(),
            stderr: String::from_utf8_lossy(&o.stderr).to_string(),
            status: o.status.code(),
        },
        Err(e) => ChildOut {
            stdout: String::new(),
            stderr: format!("spawn failed: {e}"),
            status: None,
        },
    }
}

fn segment(stderr: &str, i: usize) -> String {
    let b = format!("=== C12 RUN {i} BEGIN");
    let e = format!("=== C12 RUN {i} END");
    match (stderr.find(&b), stderr.find(&e)) {
        (Some(x), Some(y)) if y > x => stderr[x..y].to_string(),
        (Some(x), None) => stderr[x..].to_string(),
        _ => String::new(),
    }
}

/// schedules printed as: failing schedule:\n"\n<text>\n"
fn printed_schedules(seg: &str) -> Vec<String> {
    let mut v = vec![];
    let mut rest = seg;
    while let Some(p) = rest.find("failing schedule:\n\"\n") {
        let after = &rest[p + "failing schedule:\n\"\n".len()..];
        if let Some(q) = after.find("\n\"") {
            v.push(after[..q].to_string());
            rest = &after[q..];
        } else {
            break;
        }
    }
    v
}

fn persisted_files(seg: &str) -> Vec<String> {
    seg.lines()
        .filter_map(|l| l.strip_prefix("failing schedule persisted to file: "))
        .map(|s| s.trim().to_string())
        .collect()
}

pub fn one_case(history: &[(String, Scenario, bool)], mode: &str, sc: Scenario, seed: u64, acc: &mut Acc) {
    let dir = format!("{}/scratch/c12-{}-{}", crate::util::out_dir(), std::process::id(), seed);
    let _ = std::fs::remove_dir_all(&dir);
    let _ = std::fs::create_dir_all(&dir);
    let mut args: Vec<String> = vec!["c12child".into(), dir.clone(), seed.to_string()];
    for (m, s, o) in history {
        args.push(format!("{m}:{}:{}", s.name(), if *o { "o" } else { "s" }));
    }
    args.push(format!("{mode}:{}:s", sc.name()));
    let target_idx = history.len();
    let hist_desc: Vec<String> = args[3..].to_vec();
    let wit = |extra: serde_json::Value| json!({"runs": hist_desc, "seed": seed, "detail": extra});
    let files_before: Vec<String> = vec![];
    let out = spawn(&args);
    acc.evaluations += 1;
    acc.add("child_processes", 1);
    acc.distinct.insert(crate::util::hash64(format!("{:?}{mode}{}", history, sc.name()).as_bytes()));
    let line = out.stdout.lines().find(|l| l.starts_with(&format!("C12RUN {target_idx} ")));
    let Some(line) = line else {
        if out.stderr.starts_with("spawn failed") {
            // the harness could not start its own child: nothing was observed
            acc.notes.push(format!("child process could not be started: {}", out.stderr));
            acc.add("children_not_started", 1);
            let _ = std::fs::remove_dir_all(&dir);
            return;
        }
        acc.violation(
            "child-died",
            format!("the process running {:?} ended (status {:?}) before reporting the target run", hist_desc, out.status),
            wit(json!({"stderr_tail": out.stderr.chars().rev().take(600).collect::<String>().chars().rev().collect::<String>()})),
        );
        let _ = std::fs::remove_dir_all(&dir);
        return;
    };
    let outcome = line.split(' ').nth(3).unwrap_or("").to_string();
    let seg = segment(&out.stderr, target_idx);
    // 1. the failure surfaces with the task's own payload / the naming message
    let salt = target_idx as u64;
    let want = match sc {
        Scenario::PanicMain => format!("marker:{}", 1000 + salt),
        Scenario::PanicThread => format!("marker:{}", 2000 + salt),
        Scenario::PanicFuture => format!("marker:{}", 3000 + salt),
        Scenario::PanicHoldingLock => format!("marker:{}", 4000 + salt),
        Scenario::Deadlock => "deadlock:".to_string(),
        Scenario::StepBound => "step-bound".to_string(),
        Scenario::PanicWithTls => format!("marker:{}", 5000 + salt),
        Scenario::Pass => "pass:".to_string(),
    };
    if !outcome.starts_with(&want) {
        if outcome.starts_with("pass:") {
            acc.add("target_runs_that_never_failed", 1);
            let _ = std::fs::remove_dir_all(&dir);
            return; // the random run did not hit the failure; nothing to judge
        }
        acc.violation(
            "wrong-failure-surfaced",
            format!("scenario {} ended as {outcome:?}, expected {want}*", sc.name()),
            wit(json!({"stderr": seg.chars().take(800).collect::<String>()})),
        );
    }
    if sc == Scenario::Pass {
        let _ = std::fs::remove_dir_all(&dir);
        return;
    }
    // 2. emission in the configured way
    let printed = printed_schedules(&seg);
    let files = persisted_files(&seg);
    let dir_files: Vec<String> = std::fs::read_dir(&dir).map(|rd| rd.flatten().map(|e| e.path().display().to_string()).collect()).unwrap_or_default();
    // files created by earlier File-mode runs of the history
    let earlier_file_runs = history.iter().filter(|(m, s, _)| m == "F" && *s != Scenario::Pass).count();
    let _ = files_before;
    let mut schedule_text: Option<(String, bool)> = None;
    match mode {
        "N" => {
            if !printed.is_empty() || !files.is_empty() {
                acc.violation(
                    "emitted-although-disabled",
                    format!("persistence is disabled in this run's configuration but {} schedule(s) were printed and {} file(s) written", printed.len(), files.len()),
                    wit(json!({"stderr": seg.chars().take(800).collect::<String>()})),
                );
            }
        }
        "P" => {
            if printed.is_empty() {
                acc.violation(
                    "schedule-not-emitted:print",
                    "the run is configured to print the failing schedule but none was printed".into(),
                    wit(json!({"stderr": seg.chars().take(800).collect::<String>()})),
                );
            } else {
                schedule_text = Some((printed.last().unwrap().clone(), false));
            }
            if !files.is_empty() {
                acc.violation("emitted-in-wrong-way", "configured Print but a schedule file was written".into(), wit(json!({"files": files})));
            }
        }
        _ => {
            if files.is_empty() {
                acc.violation(
                    "schedule-not-emitted:file",
                    format!("the run is configured to persist the failing schedule to a file but no file was reported (printed instead: {})", printed.len()),
                    wit(json!({"stderr": seg.chars().take(800).collect::<String>(), "dir": dir_files})),
                );
            } else {
                let f = files.last().unwrap().clone();
                if !std::path::Path::new(&f).exists() {
                    acc.violation("schedule-file-missing", format!("reported schedule file {f} does not exist"), wit(json!(null)));
                } else {
                    schedule_text = Some((f, true));
                }
                if dir_files.len() < earlier_file_runs.min(1) + 1 && earlier_file_runs > 0 {
                    acc.violation("schedule-file-overwritten", format!("{} failing File-mode runs but only {} files in the directory", earlier_file_runs + 1, dir_files.len()), wit(json!({"dir": dir_files})));
                }
            }
        }
    }
    // 3a. when several schedules were emitted for one failure, the earlier ones must reproduce it too
    //     (a user may pick any of them up)
    let earlier: Vec<(String, bool)> = match mode {
        "P" if printed.len() > 1 => printed[..printed.len() - 1].iter().map(|t| (t.clone(), false)).collect(),
        "F" if files.len() > 1 => files[..files.len() - 1].iter().filter(|f| std::path::Path::new(f.as_str()).exists()).map(|f| (f.clone(), true)).collect(),
        _ => vec![],
    };
    for (text, is_file) in earlier {
        let r = spawn(&["c12replay".into(), sc.name().into(), salt.to_string(), text.clone(), if is_file { "1".into() } else { "0".into() }]);
        acc.add("replays", 1);
        acc.add("replays_of_earlier_emitted_schedules", 1);
        let rep = r.stdout.lines().find_map(|l| l.strip_prefix("C12REPLAY ")).unwrap_or("").to_string();
        let same = if outcome.starts_with("deadlock:") { rep.starts_with("deadlock:") } else { rep == outcome };
        if !same && !r.stderr.starts_with("spawn failed") {
            acc.violation(
                "earlier-emitted-schedule-does-not-reproduce",
                format!("{} schedules were emitted for this failure ({outcome:?}); replaying an earlier one gave {rep:?}", if mode == "P" { printed.len() } else { files.len() }),
                wit(json!({"schedule": text.chars().take(300).collect::<String>()})),
            );
        }
    }
    // 3. the emitted schedule reproduces the failure
    if let Some((text, is_file)) = schedule_text {
        let r = spawn(&["c12replay".into(), sc.name().into(), salt.to_string(), text.clone(), if is_file { "1".into() } else { "0".into() }]);
        acc.add("replays", 1);
        let rep = r.stdout.lines().find_map(|l| l.strip_prefix("C12REPLAY ")).unwrap_or("").to_string();
        let same = if outcome.starts_with("deadlock:") { rep.starts_with("deadlock:") } else { rep == outcome };
        if !same {
            acc.violation(
                "emitted-schedule-does-not-reproduce",
                format!("the run failed with {outcome:?}; replaying the emitted schedule gave {rep:?} (child status {:?})", r.status),
                wit(json!({"schedule": text.chars().take(300).collect::<String>()})),
            );
        }
    }
    if acc.samples.len() < 4 {
        acc.samples.push(json!({"runs": hist_desc, "target_outcome": outcome, "printed_schedules": printed.len(), "files_reported": files.len()}));
    }
    let _ = std::fs::remove_dir_all(&dir);
}

pub fn run(r: &mut Report) {
    let mut rng = Rng::new(r.seed ^ 0xC12);
    let scenarios = [Scenario::PanicMain, Scenario::PanicThread, Scenario::PanicFuture, Scenario::PanicHoldingLock, Scenario::Deadlock, Scenario::StepBound, Scenario::PanicWithTls];
    let modes = ["N", "P", "F"];
    let mut cases: Vec<(Vec<(String, Scenario, bool)>, String, Scenario, u64)> = vec![];
    // no history
    for sc in scenarios {
        for m in modes {
            cases.push((vec![], m.to_string(), sc, rng.next()));
        }
    }
    // one predecessor: every (mode, pass/fail, thread) × target mode, over a rotating scenario
    let mut k = 0;
    for pm in modes {
        for pf in [Scenario::Pass, Scenario::PanicThread, Scenario::Deadlock] {
            for other in [false, true] {
                for m in modes {
                    let sc = scenarios[k % scenarios.len()];
                    k += 1;
                    if r.quick() && k % 2 == 0 {
                        continue;
                    }
                    cases.push((vec![(pm.to_string(), pf, other)], m.to_string(), sc, rng.next()));
                }
            }
        }
    }
    // two predecessors, sampled
    let n2 = if r.quick() { 12 } else { 200 };
    for _ in 0..n2 {
        let h: Vec<(String, Scenario, bool)> = (0..2)
            .map(|_| {
                (
                    modes[rng.below(3)].to_string(),
                    [Scenario::Pass, Scenario::PanicThread, Scenario::Deadlock, Scenario::PanicMain][rng.below(4)],
                    rng.chance(1, 3),
                )
            })
            .collect();
        cases.push((h, modes[rng.below(3)].to_string(), scenarios[rng.below(scenarios.len())], rng.next()));
    }
    // same failure twice in a row (same schedule length) on the same thread
    for sc in [Scenario::Deadlock, Scenario::PanicThread] {
        for m in ["P", "F"] {
            cases.push((vec![(m.to_string(), sc, false)], m.to_string(), sc, 77));
        }
    }
    let n_cases = cases.len();
    // deterministic members: 'f' fails, 'p' passes; every position of the failing member, both stop modes
    let orders: Vec<(&str, bool)> = vec![("fp", false), ("pf", false), ("fp", true), ("pf", true), ("pp", false), ("fpp", false), ("pfp", false), ("ppf", true), ("ff", false)];
    let accs = oracle::parallel(n_cases + 4 + orders.len(), oracle::workers().min(8), |i, acc| {
        if i >= n_cases + 4 {
            let (members, stop) = orders[i - n_cases - 4];
            let out = spawn(&["c12portfolio2".into(), members.into(), if stop { "1".into() } else { "0".into() }]);
            acc.evaluations += 1;
            acc.add("portfolio_runs", 1);
            acc.distinct.insert(crate::util::hash64(format!("portfolio2{members}{stop}").as_bytes()));
            let res = out.stdout.lines().find_map(|l| l.strip_prefix("C12PORTFOLIO ")).unwrap_or("").to_string();
            let failed = !res.starts_with("pass:");
            let should_fail = members.contains('f');
            if res.is_empty() && out.stderr.starts_with("spawn failed") {
                acc.notes.push(format!("portfolio child could not be started: {}", out.stderr));
                acc.add("children_not_started", 1);
            } else if res.is_empty() {
                acc.violation("child-died", format!("portfolio child ended with status {:?} without a result", out.status), json!({"members": members}));
            } else if should_fail && failed && res != "marker:4242" {
                acc.violation("portfolio-payload", format!("portfolio with members {members:?}, stop_on_first_failure={stop}: a member failed with its own payload (marker 4242) but the portfolio run failed with {res:?}"), json!({"members": members, "stop_on_first_failure": stop}));
            } else if failed != should_fail {
                acc.violation("portfolio-verdict", format!("portfolio with members {members:?} (f = a scheduler under which the body fails, p = one under which it passes), stop_on_first_failure={stop}, ended {res:?}"), json!({"members": members, "stop_on_first_failure": stop}));
            }
        } else if i < n_cases {
            let (h, m, sc, seed) = &cases[i];
            one_case(h, m, *sc, *seed, acc);
        } else {
            // portfolio: fails exactly when a member fails
            let (sc, stop) = [(Scenario::Pass, true), (Scenario::Deadlock, true), (Scenario::PanicThread, false), (Scenario::Pass, false)][i - n_cases];
            let out = spawn(&["c12portfolio".into(), sc.name().into(), if stop { "1".into() } else { "0".into() }]);
            acc.evaluations += 1;
            acc.add("portfolio_runs", 1);
            let res = out.stdout.lines().find_map(|l| l.strip_prefix("C12PORTFOLIO ")).unwrap_or("").to_string();
            let failed = !res.starts_with("pass:");
            let should_fail = sc != Scenario::Pass;
            if res.is_empty() && out.stderr.starts_with("spawn failed") {
                acc.notes.push(format!("portfolio child could not be started: {}", out.stderr));
                acc.add("children_not_started", 1);
            } else if res.is_empty() {
                acc.violation("child-died", format!("portfolio child ended with status {:?} without a result", out.status), json!({"scenario": sc.name()}));
            } else if failed != should_fail {
                acc.violation("portfolio-verdict", format!("portfolio over bodies of scenario {} ended {res:?}", sc.name()), json!({"scenario": sc.name(), "stop_on_first_failure": stop}));
            }
        }
    });
    for a in accs {
        a.merge_into(r);
    }
    r.rule = "fresh child processes each run a history of 0-2 earlier Shuttle runs (persistence None/Print/File × passing/failing × same or another OS thread) followed by a target run of a failing body (panic in main / spawned thread / future / while holding a lock with a unique payload, lock-cycle deadlock, failing step bound; each fails only on some schedules) under None/Print/File; the parent checks the caught payload, parses the target run's stderr segment and the persistence directory for exactly the configured kind of emission, and replays the emitted schedule in another fresh child, which must fail the same way; portfolio runs must fail iff a member fails (random+PCT members on the scenario bodies, and deterministic members that fail / pass on one body in every order and both stop modes). evaluations = child processes with a history; distinct_nontrivial = distinct (history, mode, scenario) cases".into();
    r.assumptions = vec!["a target run that happens not to hit its failure in 400 random iterations is counted, not judged".into()];
}
