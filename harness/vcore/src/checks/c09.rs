//! C09: DfsScheduler visits every schedule exactly once and stops; iteration bounds; step-bound
//! prefixes; fixed random-data stream.
use crate::explore;
use crate::gen::{self, Family};
use crate::oracle::{self, Acc};
use crate::prog::*;
use crate::rec::{self, Ev, Term};
use crate::util::{Report, Rng};
use serde_json::json;
use shuttle::scheduler::*;
use std::cell::RefCell;
use std::collections::BTreeMap;
use std::rc::Rc;
use std::sync::Arc;

fn body_of(prog: &Prog) -> (impl Fn() + Send + Sync + Clone + 'static, Arc<std::sync::Mutex<Option<Arc<World>>>>) {
    let slot: Arc<std::sync::Mutex<Option<Arc<World>>>> = Arc::new(std::sync::Mutex::new(None));
    let p2 = prog.clone();
    let s2 = slot.clone();
    (move || run_prog(&p2, false, &s2), slot)
}

/// Does any path of the program fail (deadlock/panic)? DFS stops at the first failure, so the
/// exactly-once claim is only checkable on programs whose every schedule passes.
fn passes_everywhere(prog: &Prog, cap: u64) -> Option<(Vec<Vec<u32>>, Vec<Vec<u64>>)> {
    let (body, slot) = body_of(prog);
    let leaves: Rc<RefCell<Vec<Vec<u32>>>> = Rc::new(RefCell::new(vec![]));
    let draws: Rc<RefCell<Vec<Vec<u64>>>> = Rc::new(RefCell::new(vec![]));
    let failed = Rc::new(RefCell::new(false));
    let (l2, d2, f2) = (leaves.clone(), draws.clone(), failed.clone());
    let cfg = rec::base_config();
    let out = explore::enumerate(body, cfg, cap, move |f, term| {
        if let Some(w) = slot.lock().unwrap().take() {
            w.forget_endpoints();
        }
        if term != Term::Pass {
            *f2.borrow_mut() = true;
        }
        l2.borrow_mut().push(rec::choice_seq(&f.log));
        d2.borrow_mut().push(f.log.events.iter().filter_map(|e| if let Ev::Draw(v) = e { Some(*v) } else { None }).collect());
    });
    if !out.complete || *failed.borrow() {
        return None;
    }
    let l = std::mem::take(&mut *leaves.borrow_mut());
    let d = std::mem::take(&mut *draws.borrow_mut());
    Some((l, d))
}

fn dfs_run(prog: &Prog, max_iter: Option<usize>, cfg: shuttle::Config) -> (Vec<Vec<u32>>, Vec<Vec<u64>>, Term, Option<usize>) {
    let (body, slot) = body_of(prog);
    let seqs: Rc<RefCell<Vec<Vec<u32>>>> = Rc::new(RefCell::new(vec![]));
    let draws: Rc<RefCell<Vec<Vec<u64>>>> = Rc::new(RefCell::new(vec![]));
    let (s2, d2) = (seqs.clone(), draws.clone());
    let rr = rec::run_streamed(DfsScheduler::new(max_iter, true), cfg, body, move |f| {
        if let Some(w) = slot.lock().unwrap().take() {
            w.forget_endpoints();
        }
        s2.borrow_mut().push(rec::choice_seq(&f.log));
        d2.borrow_mut().push(f.log.events.iter().filter_map(|e| if let Ev::Draw(v) = e { Some(*v) } else { None }).collect());
    });
    let s = std::mem::take(&mut *seqs.borrow_mut());
    let d = std::mem::take(&mut *draws.borrow_mut());
    (s, d, rr.term, rr.iterations)
}

fn multiset(v: &[Vec<u32>]) -> BTreeMap<Vec<u32>, usize> {
    let mut m = BTreeMap::new();
    for s in v {
        *m.entry(s.clone()).or_insert(0) += 1;
    }
    m
}

pub fn check_body(prog: &Prog, acc: &mut Acc, label: &str, cap: u64, rng: &mut Rng) {
    let Some((leaves, _edraws)) = passes_everywhere(prog, cap) else {
        acc.add("bodies_skipped_failing_or_over_cap", 1);
        return;
    };
    acc.add("bodies", 1);
    acc.add("tree_leaves_total", leaves.len() as u64);
    let wit = |extra: serde_json::Value| json!({"family": label, "program": prog.describe(), "detail": extra});
    let expect = multiset(&leaves);
    if expect.values().any(|c| *c != 1) {
        acc.notes.push(format!("{label}: independent enumerator produced a duplicate leaf (harness error)"));
        acc.add("harness_errors", 1);
        return;
    }
    // 1. unbounded DFS
    let (seqs, draws, term, iters) = dfs_run(prog, None, rec::base_config());
    acc.evaluations += seqs.len() as u64;
    for s in &seqs {
        if s.iter().any(|_| true) {
            acc.distinct.insert(crate::util::hash64(&s.iter().flat_map(|x| x.to_le_bytes()).collect::<Vec<u8>>()));
        }
    }
    if term != Term::Pass {
        acc.violation("dfs-run-failed", format!("DFS run ended {:?} on a body whose every schedule passes", term), wit(json!(null)));
        return;
    }
    let got = multiset(&seqs);
    if let Some((s, c)) = got.iter().find(|(_, c)| **c > 1) {
        acc.violation("dfs-duplicate", format!("DFS ran the schedule {:?} {} times", s, c), wit(json!({"leaves": leaves.len(), "dfs_executions": seqs.len()})));
    }
    if let Some(s) = expect.keys().find(|s| !got.contains_key(*s)) {
        acc.violation("dfs-missing", format!("DFS never ran the schedule {:?} ({} of {} leaves visited)", s, got.len(), expect.len()), wit(json!({"leaves": leaves.len(), "dfs_executions": seqs.len()})));
    }
    if let Some(s) = got.keys().find(|s| !expect.contains_key(*s)) {
        acc.violation("dfs-extra", format!("DFS ran {:?} which is not a leaf of the choice tree", s), wit(json!(null)));
    }
    if iters != Some(seqs.len()) {
        acc.violation("run-count-mismatch", format!("Runner::run returned {:?} but the body ran {} times", iters, seqs.len()), wit(json!(null)));
    }
    // fixed data stream: every execution sees the same draw values at the same positions
    if let Some(first) = draws.iter().find(|d| !d.is_empty()) {
        for d in &draws {
            let n = d.len().min(first.len());
            if d[..n] != first[..n] {
                acc.violation("dfs-data-stream-varies", format!("random draws differ between DFS executions: {:?} vs {:?}", &first[..n], &d[..n]), wit(json!(null)));
                break;
            }
        }
        acc.add("bodies_with_draws", 1);
    }
    // 2. iteration bounds
    let n = leaves.len();
    let mut bounds = vec![0usize, 1, n.saturating_sub(1), n, n + 1, n + 5];
    if n > 3 {
        bounds.push(rng.range(2, n - 1));
    }
    bounds.sort();
    bounds.dedup();
    for m in bounds {
        let (s, _, term, iters) = dfs_run(prog, Some(m), rec::base_config());
        acc.evaluations += s.len() as u64;
        acc.add("iteration_bound_runs", 1);
        let want = m.min(n);
        if term != Term::Pass || s.len() != want || iters != Some(want) {
            acc.violation(
                "dfs-iteration-bound",
                format!("max_iterations={m} on a tree with {n} leaves: ran {} executions (returned {:?}, ended {:?}), expected {want}", s.len(), iters, term),
                wit(json!(null)),
            );
            continue;
        }
        let ms = multiset(&s);
        if ms.values().any(|c| *c != 1) || ms.keys().any(|k| !expect.contains_key(k)) {
            acc.violation("dfs-iteration-bound-repeat", format!("max_iterations={m}: repeated or foreign schedules among the {want} executions"), wit(json!(null)));
        }
    }
    // 3. continue-after step bound: exactly the distinct prefixes of length k (plus shorter complete leaves).
    // Only for draw-free bodies, where steps == decisions.
    let has_draws = draws.iter().any(|d| !d.is_empty());
    if !has_draws {
        let maxlen = leaves.iter().map(|l| l.len()).max().unwrap_or(0);
        let mut ks = vec![1usize, 2, 3, maxlen / 2, maxlen.saturating_sub(1), maxlen, maxlen + 1];
        ks.retain(|k| *k >= 1);
        ks.sort();
        ks.dedup();
        for k in ks {
            let mut cfg = rec::base_config();
            cfg.max_steps = shuttle::MaxSteps::ContinueAfter(k);
            let (s, _, term, _) = dfs_run(prog, None, cfg);
            acc.evaluations += s.len() as u64;
            acc.add("step_bound_runs", 1);
            if term != Term::Pass {
                acc.violation("dfs-continue-after-fails", format!("ContinueAfter({k}) DFS run ended {:?}", term), wit(json!(null)));
                continue;
            }
            let mut want: BTreeMap<Vec<u32>, usize> = BTreeMap::new();
            for l in &leaves {
                let p: Vec<u32> = l.iter().take(k).cloned().collect();
                want.insert(p, 1);
            }
            let got = multiset(&s);
            if got != want {
                let dup = got.iter().find(|(_, c)| **c > 1).map(|(s, c)| format!("{:?} x{}", s, c));
                let missing = want.keys().find(|p| !got.contains_key(*p)).cloned();
                let extra = got.keys().find(|p| !want.contains_key(*p)).cloned();
                acc.violation(
                    "dfs-step-bound-prefixes",
                    format!("ContinueAfter({k}): executed {} schedules, expected the {} distinct choice prefixes of length {k}; duplicate {:?} missing {:?} extra {:?}", s.len(), want.len(), dup, missing, extra),
                    wit(json!(null)),
                );
            }
        }
    }
    if acc.samples.len() < 3 {
        acc.samples.push(json!({"family": label, "program": prog.describe(), "leaves": n, "first_leaf": leaves.first()}));
    }
}

/// Bodies whose later fan-out depends on earlier choices.
fn shaped(rng: &mut Rng) -> Vec<(String, Prog)> {
    let mut v = vec![];
    // T1 takes a longer path only if it sees the flag unset; last sibling has more children
    for extra in 1..=3usize {
        let mut tasks = vec![vec![Op::Spawn(1), Op::Spawn(2), Op::Join(1), Op::Join(2)], vec![], vec![]];
        tasks[1] = vec![Op::Store(0, 1)];
        tasks[2] = vec![Op::Load(0)];
        for _ in 0..extra {
            tasks[2].push(Op::FetchAdd(0, 1));
        }
        v.push((format!("shaped/tail{extra}"), Prog { objs: vec![Obj::Atomic(0)], tasks, senders: vec![], receivers: vec![] }));
    }
    // single chain, depth one
    v.push(("shaped/chain".into(), Prog { objs: vec![Obj::Atomic(0)], tasks: vec![vec![Op::Store(0, 1), Op::Load(0), Op::Yield]], senders: vec![], receivers: vec![] }));
    v.push(("shaped/empty".into(), Prog { objs: vec![], tasks: vec![vec![]], senders: vec![], receivers: vec![] }));
    // wide then narrow
    {
        let mut tasks = vec![vec![Op::Spawn(1), Op::Spawn(2), Op::Spawn(3)], vec![Op::Yield], vec![Op::Yield], vec![Op::Lock(1), Op::Unlock(1)]];
        tasks[0].push(Op::Join(1));
        tasks[0].push(Op::Join(2));
        tasks[0].push(Op::Join(3));
        v.push(("shaped/wide-narrow".into(), Prog { objs: vec![Obj::Atomic(0), Obj::Mutex], tasks, senders: vec![], receivers: vec![] }));
    }
    // with draws
    v.push(("shaped/draws".into(), Prog { objs: vec![Obj::Atomic(0)], tasks: vec![vec![Op::Spawn(1), Op::Rand, Op::Load(0), Op::Join(1)], vec![Op::Rand, Op::Store(0, 1), Op::Rand]], senders: vec![], receivers: vec![] }));
    let _ = rng;
    v
}

pub fn run(r: &mut Report) {
    let mut rng = Rng::new(r.seed ^ 0xC09);
    let per_family = if r.quick() { 12 } else { 40 };
    let cap: u64 = if r.quick() { 6_000 } else { 60_000 };
    let mut items: Vec<(String, Prog, u64)> = vec![];
    for (n, p) in shaped(&mut rng) {
        items.push((n, p, rng.next()));
    }
    for f in [Family::Atomics, Family::Mutex, Family::RwLock, Family::Barrier, Family::Once, Family::ChanUnbounded, Family::ChanBounded, Family::Sem, Family::Mixed] {
        for i in 0..per_family {
            let mut g = rng.fork();
            let mut p = gen::generate(f, &mut g, i % 2);
            if i % 3 == 0 {
                p = super::c01::with_rand(p, &mut g);
            }
            items.push((format!("{f:?}/{i}"), p, rng.next()));
        }
    }
    let accs = oracle::parallel(items.len(), oracle::workers(), |i, acc| {
        let (label, p, s) = &items[i];
        let mut g = Rng::new(*s);
        check_body(p, acc, label, cap, &mut g);
    });
    for a in accs {
        a.merge_into(r);
    }
    r.rule = "for each body (generated programs of all families that pass on every schedule, plus shaped trees whose fan-out depends on earlier choices, chains, empty body, bodies with rand draws): the multiset of choice sequences executed by DfsScheduler must equal the set of leaves found by the independent EnumScheduler; max_iterations ∈ {0,1,n-1,n,n+1,n+5,random} must run exactly min(m,n) distinct leaves and Runner::run must return that count; ContinueAfter(k) must execute exactly the distinct length-k choice prefixes; all DFS executions must see the same draw values. evaluations = DFS executions; distinct_nontrivial = distinct DFS choice sequences".into();
}
