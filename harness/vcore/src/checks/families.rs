//! Model-based checks over program families (C02–C06).
use crate::gen::{self, Family};
use crate::oracle::{self, Acc, Mode};
use crate::util::{Report, Rng};

pub struct Plan {
    pub families: Vec<Family>,
    /// programs per family at sizes 0,1 (enumerated) and size 2 (sampled)
    pub n_tiny: usize,
    pub n_small: usize,
    pub n_sampled: usize,
    pub enum_cap: u64,
    pub sample_iters: u64,
    pub judge_completeness: bool,
    pub corpus: bool,
}

pub fn run_plan(r: &mut Report, plan: &Plan) {
    let mut items: Vec<(String, crate::prog::Prog, u8)> = vec![];
    if plan.corpus {
        for (name, p) in gen::corpus() {
            items.push((format!("corpus:{name}"), p, 0));
        }
    }
    let mut rng = Rng::new(r.seed ^ crate::util::hash64(r.id.as_bytes()));
    for f in &plan.families {
        for i in 0..plan.n_tiny {
            let mut g = rng.fork();
            let mut p = gen::generate(*f, &mut g, 0);
            if i % 2 == 1 {
                p = gen::sprinkle(p, &mut g);
            }
            items.push((format!("{f:?}/tiny/{i}"), p, 0));
        }
        for i in 0..plan.n_small {
            let mut g = rng.fork();
            let mut p = gen::generate(*f, &mut g, 1);
            if i % 3 == 1 {
                p = gen::sprinkle(p, &mut g);
            }
            items.push((format!("{f:?}/small/{i}"), p, 0));
        }
        for i in 0..plan.n_sampled {
            let mut g = rng.fork();
            items.push((format!("{f:?}/medium/{i}"), gen::generate(*f, &mut g, 2), 1));
        }
    }
    let seed = r.seed;
    let accs = oracle::parallel(items.len(), oracle::workers(), |i, acc: &mut Acc| {
        let (label, prog, kind) = &items[i];
        let mode = if *kind == 0 {
            Mode::Enum(plan.enum_cap)
        } else if i % 2 == 0 {
            Mode::Random {
                seed: seed.wrapping_add(i as u64),
                iters: plan.sample_iters,
            }
        } else {
            Mode::Pct {
                seed: seed.wrapping_add(i as u64),
                depth: 1 + i % 3,
                iters: plan.sample_iters,
            }
        };
        oracle::check_prog(prog, mode, acc, plan.judge_completeness, label);
        // park is the one primitive with spurious wake-ups: also judge the schedules without them,
        // where every return from park must be explained by an unpark
        if *kind == 0 && prog.tasks.iter().flatten().any(|o| matches!(o, crate::prog::Op::Park)) {
            oracle::check_prog(prog, Mode::EnumNoSpurious(plan.enum_cap), acc, plan.judge_completeness, &format!("{label}/no-spurious"));
            acc.add("programs_checked_without_spurious_wakeups", 1);
        }
    });
    for a in accs {
        a.merge_into(r);
    }
    r.rule = "bounded programs (hand-written corpus + seeded generator per primitive family) run on the real runtime; tiny/small programs: the runtime's whole choice tree enumerated by an independent enumerator, medium programs: sampled with RandomScheduler/PctScheduler; every execution checked against the reference model (observed ⊆ MAY), the Scheduler-contract checker and shadow exclusion state; completely enumerated programs additionally MUST ⊆ observed. evaluations = executions; distinct_nontrivial = distinct choice sequences (by hash) containing ≥1 decision with ≥2 offered tasks".into();
    r.assumptions = vec![
        "the reference model (vcore/src/model.rs) is the specification of each primitive's outcomes".into(),
        "programs are bounded (≤5 tasks, ≤6 ops per task)".into(),
    ];
}

fn sizes(r: &Report, q: (usize, usize, usize), t: (usize, usize, usize)) -> (usize, usize, usize) {
    if r.quick() {
        q
    } else {
        t
    }
}

pub fn c02(r: &mut Report) {
    let (a, b, c) = sizes(r, (16, 12, 0), (50, 50, 0));
    let plan = Plan {
        families: gen::ALL_FAMILIES.to_vec(),
        n_tiny: a,
        n_small: b,
        n_sampled: c,
        enum_cap: if r.quick() { 12_000 } else { 80_000 },
        sample_iters: 0,
        judge_completeness: true,
        corpus: true,
    };
    run_plan(r, &plan);
    // observer methods outside the workload language (scoped threads, async tasks)
    let kinds = super::observers::kinds();
    let accs = oracle::parallel(kinds.len(), oracle::workers().min(kinds.len()), |i, acc: &mut Acc| super::observers::check(kinds[i], acc));
    for a in accs {
        a.merge_into(r);
    }
    r.rule.push_str("; observer scenarios (ScopedJoinHandle / future::JoinHandle / future::AbortHandle ::is_finished after a store the child reads): all four sequentially consistent outcomes must be produced by the completely enumerated tree");

}

pub fn c03(r: &mut Report) {
    let (a, b, c) = sizes(r, (14, 12, 8), (50, 50, 30));
    let plan = Plan {
        families: vec![Family::Mutex, Family::Condvar, Family::Park, Family::ChanBounded, Family::ChanRendezvous, Family::Sem, Family::Barrier],
        n_tiny: a,
        n_small: b,
        n_sampled: c,
        enum_cap: if r.quick() { 12_000 } else { 80_000 },
        sample_iters: if r.quick() { 1_500 } else { 20_000 },
        judge_completeness: false,
        corpus: true,
    };
    run_plan(r, &plan);
    // termination verdicts of async programs (all-pending futures must be reported as deadlocks with
    // exactly the blocked tasks; programs whose wakes all arrive must terminate, also when a wake lands
    // while the task is asleep in a nested block_on or blocked in a synchronous primitive): the fixed
    // programs of C17 and a sample of its generated ones, judged by C17's log checker
    let mut aprogs: Vec<super::c17::AProg> = super::c17::deadlock_progs();
    aprogs.extend(super::c17::nested_progs());
    aprogs.extend(super::c17::moved_handle_progs());
    let mut arng = crate::util::Rng::new(r.seed ^ 0xC03A);
    for i in 0..(if r.quick() { 40 } else { 400 }) {
        aprogs.push(super::c17::gen_prog(&mut arng, 1 + i % 5));
    }
    let aseed = r.seed;
    let accs = oracle::parallel(aprogs.len(), oracle::workers(), |i, acc: &mut Acc| {
        for k in [0usize, 6] {
            super::c17::one_prog(&aprogs[i], k, aseed.wrapping_add(i as u64), if aprogs[i].must_deadlock { 8 } else { 60 }, acc);
        }
    });
    for a in accs {
        a.merge_into(r);
    }
    r.rule.push_str("; async termination: all-pending programs must be reported as deadlocks, programs whose wakes all arrive must pass (C17's fixed and generated async programs, judged by its poll/wake log checker)");

}

pub fn c04(r: &mut Report) {
    let (a, b, c) = sizes(r, (20, 16, 8), (70, 60, 36));
    let plan = Plan {
        families: vec![Family::Mutex, Family::RwLock, Family::Atomics, Family::Reentrant],
        n_tiny: a,
        n_small: b,
        n_sampled: c,
        enum_cap: if r.quick() { 12_000 } else { 80_000 },
        sample_iters: if r.quick() { 1_500 } else { 20_000 },
        judge_completeness: false,
        corpus: false,
    };
    run_plan(r, &plan);
    // the whole atomic method surface of every atomic type against std, boundary operands
    let n_atomic = if r.quick() { 300 } else { 6_000 };
    let aseed = r.seed;
    let accs = oracle::parallel(n_atomic, oracle::workers(), |i, acc: &mut Acc| super::atomics::check(aseed.wrapping_mul(1_000_003).wrapping_add(i as u64), 60, acc));
    for a in accs {
        a.merge_into(r);
    }
    // poisoning clause: panics caught inside the holder, every schedule of small scenario programs
    let scens = super::poison::scenarios();
    let cap = if r.quick() { 3_000 } else { 60_000 };
    let accs = oracle::parallel(scens.len(), oracle::workers(), |i, acc: &mut Acc| super::poison::check(scens[i], cap, acc));
    for a in accs {
        a.merge_into(r);
    }
    r.rule.push_str("; atomic API differential: load/store/swap/compare_exchange(_weak)/compare_and_swap/fetch_add/sub/and/nand/or/xor/max/min/fetch_update/into_inner of AtomicU8..Usize, I8..Isize, Bool, Ptr driven with boundary and random operands, every return value and the final content compared with std::sync::atomic driven by the same sequence");
    r.rule.push_str("; poisoning: scenario programs in which 1-2 tasks panic (caught inside the task) while holding a Mutex / RwLock write / RwLock read guard and 1-2 observers lock, try-lock, read and write around them, every schedule enumerated: an acquisition reports Poisoned () exactly when a panicking exclusive holder preceded it since the last clear_poison, a panicking reader never poisons, nobody deadlocks");
}

pub fn c05(r: &mut Report) {
    let (a, b, c) = sizes(r, (20, 16, 8), (70, 60, 36));
    let plan = Plan {
        families: vec![Family::Condvar, Family::Barrier, Family::Once, Family::Park],
        n_tiny: a,
        n_small: b,
        n_sampled: c,
        enum_cap: if r.quick() { 12_000 } else { 80_000 },
        sample_iters: if r.quick() { 1_500 } else { 20_000 },
        judge_completeness: false,
        corpus: true,
    };
    run_plan(r, &plan);
}

pub fn c06(r: &mut Report) {
    let (a, b, c) = sizes(r, (20, 16, 8), (70, 60, 36));
    let plan = Plan {
        families: vec![Family::ChanUnbounded, Family::ChanBounded, Family::ChanRendezvous],
        n_tiny: a,
        n_small: b,
        n_sampled: c,
        enum_cap: if r.quick() { 12_000 } else { 80_000 },
        sample_iters: if r.quick() { 1_500 } else { 20_000 },
        judge_completeness: false,
        corpus: false,
    };
    run_plan(r, &plan);
    // disconnection clause with the other side dropped by a panic that is caught inside its task
    let scens = super::poison::chan_scenarios();
    let accs = oracle::parallel(scens.len(), oracle::workers().min(scens.len()), |i, acc: &mut Acc| super::poison::check_chan(scens[i], 20_000, acc));
    for a in accs {
        a.merge_into(r);
    }
    r.rule.push_str("; disconnection by a caught panic: scenario programs in which the receiver / the only sender is dropped by a panic caught inside its task (before a send, after k sends, while a sender is blocked on a full channel, while the receiver is blocked), every schedule: send must fail, recv must drain and then report disconnection, blocked peers must be released");

}
