//! C15: vector clocks track exactly the happens-before relation.
use crate::gen::{self, Family};
use crate::oracle::{self, Acc};
use crate::prog::*;
use crate::rec::{self, Ev, Term};
use crate::util::{Report, Rng};
use serde_json::json;
use shuttle::scheduler::*;
use shuttle_engine::scheduler::serialization::serialize_schedule;
use std::cell::RefCell;
use std::collections::BTreeMap;
use std::rc::Rc;
use std::sync::Arc;

use super::c01::make_sched;

#[derive(Clone, Debug)]
struct E {
    t: usize,
    opi: usize,
    clock: Vec<u32>,
    res: i64,
}

fn leq(a: &[u32], b: &[u32]) -> bool {
    // pointwise a <= b, missing entries are zero
    for i in 0..a.len().max(b.len()) {
        let x = a.get(i).copied().unwrap_or(0);
        let y = b.get(i).copied().unwrap_or(0);
        if x > y {
            return false;
        }
    }
    true
}

/// Build the API-level happens-before edges over the completion-ordered event list.
/// Returns (edges as index pairs with a rule name, whether the rule set is complete for this program).
fn hb_edges(prog: &Prog, ev: &[E]) -> (Vec<(usize, usize, &'static str)>, bool) {
    let mut edges = vec![];
    let mut complete = true;
    let idx_of = |t: usize, opi: usize| ev.iter().position(|e| e.t == t && e.opi == opi);
    // program order
    let mut last: BTreeMap<usize, usize> = BTreeMap::new();
    for (i, e) in ev.iter().enumerate() {
        if let Some(p) = last.insert(e.t, i) {
            edges.push((p, i, "program-order"));
        }
    }
    let first_of = |t: usize| ev.iter().position(|e| e.t == t);
    let last_of = |t: usize| ev.iter().rposition(|e| e.t == t);
    let mut last_unlock: BTreeMap<usize, usize> = BTreeMap::new(); // mutex -> event idx
    let mut last_wunlock: BTreeMap<usize, usize> = BTreeMap::new();
    let mut runlocks: BTreeMap<usize, Vec<usize>> = BTreeMap::new();
    let mut writes: BTreeMap<usize, Vec<usize>> = BTreeMap::new(); // atomic -> write events so far
    let mut sends: BTreeMap<(usize, i64), usize> = BTreeMap::new(); // (chan, value) -> send event
    let mut ambiguous: std::collections::BTreeSet<(usize, i64)> = Default::default();
    let mut send_order: BTreeMap<usize, Vec<usize>> = BTreeMap::new();
    let mut recv_order: BTreeMap<usize, Vec<usize>> = BTreeMap::new();
    let mut once_done: BTreeMap<usize, usize> = BTreeMap::new();
    let mut notifies: BTreeMap<usize, Vec<usize>> = BTreeMap::new();
    for (i, e) in ev.iter().enumerate() {
        let op = &prog.tasks[e.t][e.opi];
        match op {
            Op::Spawn(c) => {
                if let Some(f) = first_of(*c) {
                    edges.push((i, f, "spawn"));
                }
            }
            Op::Join(c) => {
                if e.res >= 100 {
                    if let Some(l) = last_of(*c) {
                        edges.push((l, i, "join"));
                    }
                }
            }
            Op::Unlock(m) => {
                if e.res == R_OK {
                    last_unlock.insert(*m, i);
                }
            }
            Op::Lock(m) => {
                if let Some(u) = last_unlock.get(m) {
                    edges.push((*u, i, "unlock-lock"));
                }
            }
            Op::TryLock(m) => {
                complete = false; // failed try-ops carry documented conservative edges
                if e.res >= 0 {
                    if let Some(u) = last_unlock.get(m) {
                        edges.push((*u, i, "unlock-lock"));
                    }
                }
            }
            Op::Wait { cv, .. } => {
                complete = false;
                // with a single candidate notifier the edge is unambiguous
                if let Some(ns) = notifies.get(cv) {
                    if ns.len() == 1 {
                        edges.push((ns[0], i, "notify-wait"));
                    }
                }
            }
            Op::NotifyOne(cv) | Op::NotifyAll(cv) => {
                notifies.entry(*cv).or_default().push(i);
            }
            Op::WUnlock(l) => {
                if e.res == R_OK {
                    last_wunlock.insert(*l, i);
                    runlocks.remove(l);
                }
            }
            Op::RUnlock(l) => {
                if e.res == R_OK {
                    runlocks.entry(*l).or_default().push(i);
                }
            }
            Op::Read(l) | Op::TryRead(l) => {
                if matches!(op, Op::TryRead(_)) {
                    complete = false;
                }
                if e.res >= 0 {
                    if let Some(u) = last_wunlock.get(l) {
                        edges.push((*u, i, "wunlock-read"));
                    }
                }
            }
            Op::Write(l) | Op::TryWrite(l) => {
                if matches!(op, Op::TryWrite(_)) {
                    complete = false;
                }
                if e.res >= 0 {
                    if let Some(u) = last_wunlock.get(l) {
                        edges.push((*u, i, "wunlock-write"));
                    }
                    if let Some(rs) = runlocks.get(l) {
                        for r in rs {
                            edges.push((*r, i, "runlock-write"));
                        }
                    }
                }
            }
            Op::Send(ch, v) | Op::TrySend(ch, v) => {
                if matches!(op, Op::TrySend(..)) {
                    complete = false;
                }
                if e.res == R_OK {
                    if sends.insert((*ch, *v), i).is_some() {
                        // the same value sent twice on one channel: a receive no longer identifies its send
                        ambiguous.insert((*ch, *v));
                    }
                    let so = send_order.entry(*ch).or_default();
                    so.push(i);
                    if let Obj::Chan(Some(cap)) = &prog.objs[*ch] {
                        if *cap == 0 {
                            complete = false; // rendezvous adds receiver->sender edges
                        } else {
                            let s = so.len() - 1;
                            if s >= *cap {
                                if let Some(r) = recv_order.get(ch).and_then(|ro| ro.get(s - *cap)) {
                                    edges.push((*r, i, "recv-frees-send"));
                                }
                            }
                        }
                    }
                } else {
                    complete = false;
                }
            }
            Op::Recv(ch) | Op::TryRecv(ch) => {
                if matches!(op, Op::TryRecv(_)) {
                    complete = false;
                }
                if e.res > 0 {
                    if ambiguous.contains(&(*ch, e.res)) {
                        complete = false;
                    } else if let Some(s) = sends.get(&(*ch, e.res)) {
                        edges.push((*s, i, "send-recv"));
                    }
                    recv_order.entry(*ch).or_default().push(i);
                } else {
                    complete = false;
                }
            }
            Op::DropTx(_) | Op::DropRx(_) => complete = false,
            Op::BarrierWait(_) => {
                complete = false;
            }
            Op::CallOnce { once, .. } => {
                complete = false;
                if e.res == 1 {
                    once_done.insert(*once, i);
                } else if let Some(d) = once_done.get(once) {
                    edges.push((*d, i, "once-completion"));
                }
            }
            Op::IsCompleted(once) => {
                complete = false;
                if e.res == 1 {
                    if let Some(d) = once_done.get(once) {
                        edges.push((*d, i, "once-completion"));
                    }
                }
            }
            Op::Load(a) => {
                if let Some(ws) = writes.get(a) {
                    for w in ws {
                        edges.push((*w, i, "atomic-write-read"));
                    }
                }
            }
            Op::Store(a, _) => {
                writes.entry(*a).or_default().push(i);
            }
            Op::FetchAdd(a, _) | Op::Swap(a, _) => {
                if let Some(ws) = writes.get(a) {
                    for w in ws {
                        edges.push((*w, i, "atomic-write-rmw"));
                    }
                }
                writes.entry(*a).or_default().push(i);
            }
            Op::Cas(a, _, _) => {
                if let Some(ws) = writes.get(a) {
                    for w in ws {
                        edges.push((*w, i, "atomic-write-rmw"));
                    }
                }
                if e.res >= CAS_OK {
                    writes.entry(*a).or_default().push(i);
                }
            }
            Op::Acquire(..) | Op::TryAcquire(..) | Op::Release(..) | Op::Close(_) | Op::Avail(_) | Op::IsClosed(_) => complete = false,
            Op::Park | Op::Unpark(_) | Op::Yield | Op::Rand => {
                if matches!(op, Op::Park | Op::Unpark(_)) {
                    complete = false;
                }
            }
        }
    }
    let _ = idx_of;
    (edges, complete)
}

fn barrier_edges(prog: &Prog, ev: &[E], log: &rec::ExecLog, edges: &mut Vec<(usize, usize, &'static str)>) {
    // arrivals -> departures: only for programs where the barrier is waited on exactly n times
    for (b, o) in prog.objs.iter().enumerate() {
        let Obj::Barrier(n) = o else { continue };
        let waits: Vec<usize> = ev.iter().enumerate().filter(|(_, e)| matches!(prog.tasks[e.t][e.opi], Op::BarrierWait(x) if x == b)).map(|(i, _)| i).collect();
        if waits.len() != (*n).max(1) || *n < 2 {
            continue;
        }
        // the event before each member's wait (its arrival happens after that event)
        for w in &waits {
            let e = &ev[*w];
            if e.opi == 0 {
                continue;
            }
            if let Some(prev) = ev.iter().position(|x| x.t == e.t && x.opi == e.opi - 1) {
                for d in &waits {
                    edges.push((prev, *d, "barrier-arrival-departure"));
                }
            }
        }
    }
    let _ = log;
}

struct OneRun {
    events: Vec<E>,
    log: rec::ExecLog,
    schedule: Schedule,
    term: Term,
}

fn run_once(prog: &Prog, sched: Box<dyn Scheduler + Send>) -> Vec<OneRun> {
    let slot: Arc<std::sync::Mutex<Option<Arc<World>>>> = Arc::new(std::sync::Mutex::new(None));
    let p2 = prog.clone();
    let s2 = slot.clone();
    let body = move || run_prog(&p2, true, &s2);
    let out: Rc<RefCell<Vec<OneRun>>> = Rc::new(RefCell::new(vec![]));
    let o2 = out.clone();
    let mut cfg = rec::base_config();
    cfg.max_steps = shuttle::MaxSteps::FailAfter(5_000);
    let sl = slot.clone();
    let rr = rec::run_streamed(sched, cfg, body, move |f| {
        let mut events = vec![];
        if let Some(w) = sl.lock().unwrap().take() {
            let results = w.results.lock().unwrap().clone();
            for (t, opi, c) in w.clock_log.lock().unwrap().iter() {
                events.push(E { t: *t, opi: *opi, clock: c.clone(), res: results[*t].get(*opi).copied().unwrap_or(0) });
            }
            w.forget_endpoints();
        }
        o2.borrow_mut().push(OneRun { events, log: f.log, schedule: f.runtime_schedule, term: Term::Pass });
    });
    let mut v = std::mem::take(&mut *out.borrow_mut());
    if let Some(l) = v.last_mut() {
        l.term = rr.term;
    }
    v
}

fn check_exec(prog: &Prog, run: &OneRun, acc: &mut Acc, label: &str, rng: &mut Rng, precision: bool) {
    let ev = &run.events;
    let wit = |extra: serde_json::Value| json!({"family": label, "program": prog.describe(), "choices": rec::choice_seq(&run.log), "detail": extra});
    acc.evaluations += 1;
    if rec::nontrivial(&run.log) {
        acc.distinct.insert(rec::hash_choices(&run.log));
    }
    let (mut edges, complete) = hb_edges(prog, ev);
    barrier_edges(prog, ev, &run.log, &mut edges);
    acc.add("hb_edges_checked", edges.len() as u64);
    // (1) every edge is reflected
    for (a, b, rule) in &edges {
        if !leq(&ev[*a].clock, &ev[*b].clock) {
            // Is the happens-before edge itself reflected? b must know everything a's task knew
            // before the operation, and that the operation happened (own entry advanced), even if
            // a's clock *read after the operation* contains later increments of the same operation.
            let ta = ev[*a].t;
            let before: Vec<u32> = ev[..*a].iter().rev().find(|e| e.t == ta).map(|e| e.clock.clone()).unwrap_or_default();
            let own_before = before.get(ta).copied().unwrap_or(0);
            let own_after = ev[*a].clock.get(ta).copied().unwrap_or(0);
            let own_at_b = ev[*b].clock.get(ta).copied().unwrap_or(0);
            let tolerant = leq(&before, &ev[*b].clock) && (own_after == own_before || own_at_b > own_before);
            let sig = if tolerant { format!("after-op-clock-not-dominated:{rule}") } else { format!("hb-edge-not-reflected:{rule}") };
            acc.violation(
                &sig,
                format!(
                    "T{}#{} {:?} happens before T{}#{} {:?} ({rule}) but clock {:?} does not dominate {:?}",
                    ev[*a].t, ev[*a].opi, prog.tasks[ev[*a].t][ev[*a].opi], ev[*b].t, ev[*b].opi, prog.tasks[ev[*b].t][ev[*b].opi], ev[*b].clock, ev[*a].clock
                ),
                wit(json!({"rule": rule})),
            );
        }
    }
    // (3) own clock only grows
    let mut lastc: BTreeMap<usize, Vec<u32>> = BTreeMap::new();
    for e in ev {
        if let Some(p) = lastc.get(&e.t) {
            if !leq(p, &e.clock) {
                acc.violation("clock-decreased", format!("task T{}'s clock went from {:?} to {:?} at op {}", e.t, p, e.clock, e.opi), wit(json!(null)));
            }
        }
        lastc.insert(e.t, e.clock.clone());
    }
    // (2) no order reported without a chain of edges
    if precision && complete && ev.len() <= 40 {
        let n = ev.len();
        let mut reach = vec![vec![false; n]; n];
        for (a, b, _) in &edges {
            reach[*a][*b] = true;
        }
        for k in 0..n {
            for i in 0..n {
                if reach[i][k] {
                    for j in 0..n {
                        if reach[k][j] {
                            reach[i][j] = true;
                        }
                    }
                }
            }
        }
        // "each completed a clock-advancing operation": the event itself must be one
        let advancing = |e: &E| {
            matches!(
                prog.tasks[e.t][e.opi],
                Op::Lock(_) | Op::Unlock(_) | Op::Load(_) | Op::Store(..) | Op::FetchAdd(..) | Op::Cas(..) | Op::Swap(..) | Op::Send(..) | Op::Recv(_) | Op::Spawn(_) | Op::Join(_) | Op::Write(_) | Op::WUnlock(_) | Op::Read(_) | Op::RUnlock(_)
            )
        };
        let mut pairs = 0u64;
        for i in 0..n {
            for j in 0..n {
                if i == j || ev[i].t == ev[j].t || reach[i][j] || reach[j][i] {
                    continue;
                }
                if !advancing(&ev[i]) || !advancing(&ev[j]) {
                    continue;
                }
                pairs += 1;
                if leq(&ev[i].clock, &ev[j].clock) && ev[i].clock != ev[j].clock {
                    acc.violation(
                        "concurrent-events-reported-ordered",
                        format!(
                            "T{}#{} {:?} (clock {:?}) and T{}#{} {:?} (clock {:?}) are connected by no chain of synchronisation edges, yet the clocks order them",
                            ev[i].t, ev[i].opi, prog.tasks[ev[i].t][ev[i].opi], ev[i].clock, ev[j].t, ev[j].opi, prog.tasks[ev[j].t][ev[j].opi], ev[j].clock
                        ),
                        wit(json!(null)),
                    );
                }
            }
        }
        acc.add("concurrent_pairs_checked", pairs);
        acc.add("executions_precision_checked", 1);
        // (4) target-clock replay keeps every ancestor of the target event
        let nonblocking_prog = prog.tasks.iter().flatten().all(|o| matches!(o, Op::Spawn(_) | Op::Load(_) | Op::Store(..) | Op::FetchAdd(..) | Op::Cas(..) | Op::Swap(..) | Op::Yield));
        if run.term == Term::Pass && n >= 2 && (nonblocking_prog || rng.chance(1, 3)) {
            // in non-blocking programs prefer targets that depend on every spawn (late events)
            let target = if nonblocking_prog && rng.chance(2, 3) { n - 1 - rng.below(n.min(3)) } else { rng.below(n) };
            let mut rs = ReplayScheduler::new_from_encoded(&serialize_schedule(&run.schedule));
            rs.set_allow_incomplete();
            rs.set_target_clock(&ev[target].clock[..]);
            let rep = run_once(prog, Box::new(rs));
            acc.add("target_clock_replays", 1);
            if let Some(r) = rep.first() {
                let executed: std::collections::BTreeSet<(usize, usize)> = r
                    .log
                    .events
                    .iter()
                    .filter_map(|e| match e {
                        Ev::Body { tag, .. } if tag & (TAG_CALL | TAG_SPAWNMAP | TAG_START) == 0 => Some((tag_task(*tag), tag_op(*tag))),
                        _ => None,
                    })
                    .collect();
                for a in 0..n {
                    if (a == target || reach[a][target]) && !executed.contains(&(ev[a].t, ev[a].opi)) {
                        // Documented limitation of target-clock replay (known finding): the replay
                        // ends at the first recorded step whose task is not runnable, even if that
                        // step is irrelevant to the target (its task was never spawned because the
                        // spawn was skipped, or it is blocked behind a skipped step). In programs
                        // that cannot block and whose spawns are all ancestors of the target this
                        // cannot strike, so there a dropped dependency is never excused.
                        let nonblocking = prog.tasks.iter().flatten().all(|o| matches!(o, Op::Spawn(_) | Op::Load(_) | Op::Store(..) | Op::FetchAdd(..) | Op::Cas(..) | Op::Swap(..) | Op::Yield));
                        let all_spawns_needed = (0..n).all(|s| !matches!(prog.tasks[ev[s].t][ev[s].opi], Op::Spawn(_)) || s == target || reach[s][target]);
                        let stopped_by_none = r.log.events.iter().any(|e| matches!(e, Ev::Decision(d) if d.choice.is_none()));
                        acc.violation(
                            if nonblocking && all_spawns_needed {
                                "target-replay-dropped-dependency"
                            } else if stopped_by_none {
                                "target-replay-dropped-dependency:replay-stopped-at-unrunnable-step"
                            } else {
                                "target-replay-dropped-dependency"
                            },
                            format!(
                                "replay restricted to the clock of T{}#{} did not execute T{}#{} {:?}, on which the target depends",
                                ev[target].t, ev[target].opi, ev[a].t, ev[a].opi, prog.tasks[ev[a].t][ev[a].opi]
                            ),
                            wit(json!({"target": [ev[target].t, ev[target].opi]})),
                        );
                        break;
                    }
                }
            }
        }
    }
    if acc.samples.len() < 3 {
        acc.samples.push(json!({"family": label, "program": prog.describe(), "events": ev.iter().take(8).map(|e| json!({"task": e.t, "op": format!("{:?}", prog.tasks[e.t][e.opi]), "clock": e.clock})).collect::<Vec<_>>(), "edges": edges.len()}));
    }
}

/// lock/unlock only, blocking channel ops only: the families where the rule set is complete
fn precise_prog(rng: &mut Rng, i: usize) -> Prog {
    let f = [Family::Atomics, Family::ChanUnbounded, Family::ChanBounded, Family::Mutex, Family::RwLock][i % 5];
    let mut p = gen::generate(f, rng, 1 + i % 2);
    for t in p.tasks.iter_mut() {
        for op in t.iter_mut() {
            match op {
                Op::TryLock(m) => *op = Op::Lock(*m),
                Op::TrySend(c, v) => *op = Op::Send(*c, *v),
                Op::TryRecv(c) => *op = Op::Recv(*c),
                Op::TryRead(l) => *op = Op::Read(*l),
                Op::TryWrite(l) => *op = Op::Write(*l),
                _ => {}
            }
        }
        t.retain(|o| !matches!(o, Op::DropTx(_) | Op::DropRx(_)));
    }
    if f == Family::Atomics && i % 2 == 0 {
        // a non-blocking variant: no joins
        p.tasks[0].retain(|o| !matches!(o, Op::Join(_)));
    }
    p
}

pub fn run(r: &mut Report) {
    let mut rng = Rng::new(r.seed ^ 0xC15);
    let per_family = if r.quick() { 30 } else { 100 };
    let iters = if r.quick() { 80 } else { 600 };
    let mut items: Vec<(String, Prog, u64, bool)> = vec![];
    for (name, p) in gen::corpus() {
        items.push((format!("corpus:{name}"), p, rng.next(), false));
    }
    for f in gen::ALL_FAMILIES {
        for i in 0..per_family {
            let mut g = rng.fork();
            items.push((format!("{f:?}/{i}"), gen::generate(*f, &mut g, 1 + i % 2), rng.next(), false));
        }
    }
    for i in 0..(per_family * 6) {
        let mut g = rng.fork();
        items.push((format!("precise/{i}"), precise_prog(&mut g, i), rng.next(), true));
    }
    let accs = oracle::parallel(items.len(), oracle::workers(), |i, acc| {
        let (label, p, s, precise) = &items[i];
        let mut g = Rng::new(*s);
        for k in [0usize, 2, 5, 6] {
            let runs = run_once(p, make_sched(k, g.next(), iters / 2));
            for run in &runs {
                // failing executions still have valid clocks for the events that completed
                check_exec(p, run, acc, label, &mut g, *precise);
            }
        }
    });
    for a in accs {
        a.merge_into(r);
    }
    r.rule = "programs of every family + corpus run under random, PCT, URW and DFS schedulers with shuttle::current::clock() sampled after every operation; per execution the API-level happens-before graph is built from the operation log (program order, spawn→child start, child end→join, unlock→later lock, write-unlock→read/write, read-unlock→write, send→matching recv, recv j→send j+cap, notify→wait (single notifier), barrier arrivals→departures (single generation), once completion→later callers, atomic write→later read/RMW): (1) every edge must be reflected by clock dominance, (3) each task's clock only grows, (2) on programs where the rule set is complete (blocking lock/atomic/channel/spawn/join ops only) no two events without a connecting chain may have ordered clocks (all pairs), (4) a third of those executions are replayed with ReplayScheduler::set_target_clock(clock of a random event) and every ancestor of that event must be executed. evaluations = executions; distinct_nontrivial = distinct choice sequences with a real choice".into();
    r.assumptions = vec!["condvars with several notifiers, failed try-ops, endpoint drops, barriers with several generations, semaphores and park/unpark are checked for (1) and (3) only (Shuttle documents conservative extra edges there)".into()];
}
