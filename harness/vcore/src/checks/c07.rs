//! C07: thread lifecycle — spawn, join, scope and thread-locals behave as in std.
use crate::oracle::{self, Acc};
use crate::rec::{self, body_event, Ev, ExecLog, Term};
use crate::util::{Report, Rng};
use serde_json::json;
use shuttle::sync::{Arc, Mutex};
use std::cell::{Cell, RefCell};
use std::collections::{BTreeMap, BTreeSet};
use std::rc::Rc;

use super::c01::{make_sched, sched_name};

const E_START: u32 = 3000; // a = thread uid
const E_END: u32 = 3001; // a = thread uid
const E_INIT: u32 = 3002; // a = key, b = instance
const E_DROP: u32 = 3003; // a = key, b = instance
const E_DROP_ACCESS: u32 = 3004; // a = key being dropped * 10 + key accessed, b = 1 ok / 0 err
const E_JOIN: u32 = 3005; // a = child uid, b = value
const E_SCOPE_END: u32 = 3006; // a = scope owner uid
const E_IDENT: u32 = 3007; // a = uid, b = thread id as usize
const E_NAME: u32 = 3008; // a = uid, b = 1 if name matches expectation
const E_ACCESS_AFTER: u32 = 3009; // a = key, b = 1 ok / 0 err   (access from a later destructor)
const E_SPAWNED: u32 = 3010; // a = child uid, b = child's ThreadId as seen by the parent

thread_local! {
    static NEXT_INST: Cell<i64> = const { Cell::new(0) };
}
fn next_inst() -> i64 {
    NEXT_INST.with(|n| {
        n.set(n.get() + 1);
        n.get()
    })
}

thread_local! {
    /// (task, key) pairs initialised in the current execution: an online guard, so that a value that
    /// is re-created after its destruction fails the execution at once instead of looping through
    /// destructors that resurrect each other
    static INITS: std::cell::RefCell<std::collections::HashSet<(usize, u8)>> = std::cell::RefCell::new(Default::default());
}
fn note_init(key: u8) {
    let me: usize = shuttle::current::me().into();
    let fresh = INITS.with(|s| s.borrow_mut().insert((me, key)));
    if !fresh {
        panic!("thread-local {key} of task {me} was initialised a second time (resurrected after destruction)");
    }
}

shuttle::lazy_static! {
    static ref DROP_LOCK: Mutex<u32> = Mutex::new(0);
}

struct V0(i64);
struct V1(i64);
struct V2(i64);
struct V3(i64);

shuttle::thread_local! {
    static TL0: V0 = { note_init(0); let i = next_inst(); body_event(E_INIT, 0, i); V0(i) };
    static TL1: V1 = { note_init(1); let i = next_inst(); body_event(E_INIT, 1, i); V1(i) };
    static TL2: V2 = { note_init(2); let i = next_inst(); body_event(E_INIT, 2, i); V2(i) };
    static TL3: V3 = { note_init(3); let i = next_inst(); body_event(E_INIT, 3, i); V3(i) };
}

impl Drop for V0 {
    fn drop(&mut self) {
        body_event(E_DROP, 0, self.0);
    }
}
impl Drop for V1 {
    // touches another thread-local from its destructor (which may be alive, not yet initialised, or gone)
    fn drop(&mut self) {
        let r = TL0.try_with(|v| v.0);
        body_event(E_DROP_ACCESS, 10, r.is_ok() as i64);
        body_event(E_DROP, 1, self.0);
    }
}
impl Drop for V2 {
    // synchronises from its destructor
    fn drop(&mut self) {
        {
            let mut g = DROP_LOCK.lock().unwrap();
            *g += 1;
            shuttle::thread::yield_now();
        }
        body_event(E_DROP, 2, self.0);
    }
}
impl Drop for V3 {
    // accesses itself while being destroyed: must be an error, not a resurrection
    fn drop(&mut self) {
        let r = TL3.try_with(|v| v.0);
        body_event(E_DROP_ACCESS, 33, r.is_ok() as i64);
        let r1 = TL1.try_with(|v| v.0);
        body_event(E_DROP_ACCESS, 31, r1.is_ok() as i64);
        body_event(E_DROP, 3, self.0);
    }
}

#[derive(Clone, Debug)]
pub struct Plan {
    /// per thread uid: (keys touched in order, children uids, join order, named, scoped children)
    pub threads: Vec<ThreadPlan>,
}

#[derive(Clone, Debug)]
pub struct ThreadPlan {
    pub touch: Vec<u8>,
    pub children: Vec<usize>,
    pub join_order: Vec<usize>,
    pub named: bool,
    pub scoped: bool,
    pub yield_between: bool,
}

pub fn gen_plan(rng: &mut Rng, max_threads: usize) -> Plan {
    let n = rng.range(1, max_threads);
    let mut threads: Vec<ThreadPlan> = (0..=n)
        .map(|_| ThreadPlan {
            touch: {
                let k = rng.below(5);
                (0..k).map(|_| rng.below(4) as u8).collect()
            },
            children: vec![],
            join_order: vec![],
            named: rng.chance(1, 3),
            scoped: rng.chance(1, 4),
            yield_between: rng.chance(1, 2),
        })
        .collect();
    for c in 1..=n {
        let parent = rng.below(c);
        threads[parent].children.push(c);
    }
    // scoped threads are spawned through Scope::spawn, which takes no name
    let unnamed: Vec<usize> = threads.iter().filter(|t| t.scoped).flat_map(|t| t.children.clone()).collect();
    for c in unnamed {
        threads[c].named = false;
    }
    for t in threads.iter_mut() {
        let mut j = t.children.clone();
        // random join order; sometimes leave one unjoined
        for i in (1..j.len()).rev() {
            j.swap(i, rng.below(i + 1));
        }
        if !t.scoped && rng.chance(1, 5) {
            j.pop();
        }
        t.join_order = j;
    }
    Plan { threads }
}

fn touch(k: u8) {
    match k {
        0 => TL0.with(|v| {
            let _ = v.0;
        }),
        1 => TL1.with(|v| {
            let _ = v.0;
        }),
        2 => TL2.with(|v| {
            let _ = v.0;
        }),
        _ => TL3.with(|v| {
            let _ = v.0;
        }),
    }
}

pub fn run_thread(plan: Arc<Plan>, uid: usize) -> i64 {
    if uid == 0 {
        INITS.with(|s| s.borrow_mut().clear());
    }
    body_event(E_START, uid as i64, 0);
    let me = &plan.threads[uid];
    let tid: usize = shuttle::thread::current().id().into();
    body_event(E_IDENT, uid as i64, tid as i64);
    let name_ok = match (me.named && uid != 0, shuttle::thread::current().name()) {
        (true, Some(n)) => n == format!("t{uid}"),
        (false, None) => true,
        (false, Some(n)) => uid == 0 && n == "main-thread",
        _ => false,
    };
    body_event(E_NAME, uid as i64, name_ok as i64);
    let local = [uid as i64 * 7, 1, 2];
    if me.scoped && !me.children.is_empty() {
        shuttle::thread::scope(|s| {
            let mut hs = vec![];
            for &c in &me.children {
                let p = plan.clone();
                let l = &local;
                hs.push((c, s.spawn(move || run_thread(p, c) + l[0] * 0)));
            }
            for k in &me.touch {
                touch(*k);
                if me.yield_between {
                    shuttle::thread::yield_now();
                }
            }
            for &c in &me.join_order {
                if let Some(pos) = hs.iter().position(|h| h.0 == c) {
                    let (_, h) = hs.remove(pos);
                    let v = h.join().unwrap();
                    body_event(E_JOIN, c as i64, v);
                }
            }
        });
        body_event(E_SCOPE_END, uid as i64, 0);
    } else {
        let mut hs = vec![];
        for &c in &me.children {
            let p = plan.clone();
            let named = plan.threads[c].named;
            let h = if named {
                shuttle::thread::Builder::new().name(format!("t{c}")).spawn(move || run_thread(p, c)).unwrap()
            } else {
                shuttle::thread::spawn(move || run_thread(p, c))
            };
            let ctid: usize = h.thread().id().into();
            body_event(E_SPAWNED, c as i64, ctid as i64);
            hs.push((c, h));
            if me.yield_between {
                shuttle::thread::yield_now();
            }
        }
        for k in &me.touch {
            touch(*k);
            if me.yield_between {
                shuttle::thread::yield_now();
            }
        }
        for &c in &me.join_order {
            if let Some(pos) = hs.iter().position(|h| h.0 == c) {
                let (_, h) = hs.remove(pos);
                let v = h.join().unwrap();
                body_event(E_JOIN, c as i64, v);
            }
        }
    }
    body_event(E_END, uid as i64, 0);
    1000 + uid as i64
}

/// Check one execution's log. Returns (signature, description) pairs.
pub fn check_log(plan: &Plan, log: &ExecLog, completed: bool) -> Vec<(String, String)> {
    let mut out: Vec<(String, String)> = vec![];
    let evs: Vec<(usize, usize, u32, i64, i64)> = log
        .events
        .iter()
        .enumerate()
        .filter_map(|(i, e)| if let Ev::Body { task, tag, a, b } = e { Some((i, *task, *tag, *a, *b)) } else { None })
        .collect();
    // uid <-> task
    let mut task_of: BTreeMap<i64, usize> = BTreeMap::new();
    let mut starts: BTreeMap<i64, usize> = BTreeMap::new();
    for (_, task, tag, a, _) in &evs {
        if *tag == E_START {
            *starts.entry(*a).or_insert(0) += 1;
            task_of.insert(*a, *task);
        }
    }
    for (uid, n) in &starts {
        if *n != 1 {
            out.push(("closure-ran-not-once".into(), format!("the closure of thread {uid} started {n} times")));
        }
    }
    let end_idx: BTreeMap<i64, usize> = evs.iter().filter(|e| e.2 == E_END).map(|e| (e.3, e.0)).collect();
    // identities
    let mut ids: BTreeMap<i64, i64> = BTreeMap::new();
    for (_, task, tag, a, b) in &evs {
        if *tag == E_IDENT {
            if ids.values().any(|x| x == b) {
                out.push(("thread-id-not-unique".into(), format!("thread {a} reports ThreadId {b}, which another thread also reports")));
            }
            if *b != *task as i64 {
                out.push(("thread-id-wrong".into(), format!("thread {a} runs as task {task} but thread::current().id() is {b}")));
            }
            ids.insert(*a, *b);
        }
        if *tag == E_NAME && *b != 1 {
            out.push(("thread-name-wrong".into(), format!("thread {a} sees a wrong thread name")));
        }
        if *tag == E_SPAWNED {
            // the id the parent sees must be the id the child reports
            if let Some(cid) = evs.iter().find(|e| e.2 == E_IDENT && e.3 == *a).map(|e| e.4) {
                if cid != *b {
                    out.push(("thread-id-wrong".into(), format!("JoinHandle::thread().id() of thread {a} is {b}, the thread itself reports {cid}")));
                }
            }
        }
    }
    // thread-locals per task
    let tasks: BTreeSet<usize> = evs.iter().map(|e| e.1).collect();
    for t in &tasks {
        let inits: Vec<(usize, i64, i64)> = evs.iter().filter(|e| e.1 == *t && e.2 == E_INIT).map(|e| (e.0, e.3, e.4)).collect();
        let drops: Vec<(usize, i64, i64)> = evs.iter().filter(|e| e.1 == *t && e.2 == E_DROP).map(|e| (e.0, e.3, e.4)).collect();
        let mut seen_keys = BTreeSet::new();
        for (_, k, _) in &inits {
            if !seen_keys.insert(*k) {
                out.push(("thread-local-initialised-twice".into(), format!("task {t} initialised thread-local {k} more than once")));
            }
        }
        // every drop belongs to an init of the same task, exactly once
        let mut dropped = BTreeSet::new();
        for (_, k, inst) in &drops {
            if !inits.iter().any(|i| i.1 == *k && i.2 == *inst) {
                out.push(("foreign-thread-local-dropped".into(), format!("task {t} destroyed instance {inst} of thread-local {k}, which it did not initialise (shared instance?)")));
            }
            if !dropped.insert(*inst) {
                out.push(("thread-local-dropped-twice".into(), format!("task {t}: instance {inst} of thread-local {k} destroyed twice")));
            }
        }
        // a thread that finished has destroyed everything it initialised, in initialisation order
        let uid = task_of.iter().find(|(_, tk)| *tk == t).map(|(u, _)| *u);
        let finished = uid.map(|u| end_idx.contains_key(&u)).unwrap_or(false);
        if finished && completed {
            for (_, k, inst) in &inits {
                if !dropped.contains(inst) {
                    out.push(("thread-local-not-destroyed".into(), format!("task {t} finished but instance {inst} of thread-local {k} was never destroyed")));
                }
            }
            let init_order: Vec<i64> = inits.iter().map(|i| i.2).collect();
            let drop_order: Vec<i64> = drops.iter().map(|d| d.2).collect();
            if init_order.len() == drop_order.len() && init_order != drop_order {
                out.push(("destructor-order".into(), format!("task {t}: initialisation order {:?} but destruction order {:?}", init_order, drop_order)));
            }
            // destructors run after the closure returned
            if let Some(e) = uid.and_then(|u| end_idx.get(&u)) {
                if let Some(d) = drops.iter().find(|d| d.0 < *e) {
                    out.push(("destructor-before-closure-end".into(), format!("task {t}: thread-local {} destroyed before the closure returned", d.1)));
                }
            }
        }
        // access during destruction: V3 accessing itself must fail
        for e in evs.iter().filter(|e| e.1 == *t && e.2 == E_DROP_ACCESS) {
            if e.3 == 33 && e.4 == 1 {
                out.push(("access-during-destruction-succeeded".into(), format!("task {t}: a thread-local accessed from its own destructor returned a value")));
            }
            // accessing key B from the destructor of key A after B was destroyed must fail
            let (_a, b) = (e.3 / 10, e.3 % 10);
            let b_dropped_before = drops.iter().any(|d| d.1 == b && d.0 < e.0);
            if b_dropped_before && e.4 == 1 && e.3 != 33 {
                out.push(("access-after-destruction-succeeded".into(), format!("task {t}: thread-local {b} was accessed successfully after its destructor had run (resurrected)")));
            }
        }
    }
    // joins
    for (idx, _task, tag, a, b) in &evs {
        if *tag == E_JOIN {
            if *b != 1000 + *a {
                out.push(("join-wrong-value".into(), format!("join of thread {a} returned {b}, its closure returned {}", 1000 + a)));
            }
            match end_idx.get(a) {
                Some(e) if e < idx => {}
                _ => out.push(("join-before-closure-end".into(), format!("join of thread {a} returned before its closure had returned"))),
            }
            if let Some(ct) = task_of.get(a) {
                if let Some(d) = evs.iter().find(|e| e.1 == *ct && e.2 == E_DROP && e.0 > *idx) {
                    out.push(("join-before-destructors".into(), format!("join of thread {a} returned before the destructor of its thread-local {} ran", d.3)));
                }
            }
        }
        if *tag == E_SCOPE_END {
            for c in &plan.threads[*a as usize].children {
                match end_idx.get(&(*c as i64)) {
                    Some(e) if e < idx => {}
                    _ => out.push(("scope-returned-early".into(), format!("scope of thread {a} returned before scoped thread {c} finished"))),
                }
            }
        }
    }
    out
}

fn one_plan(plan: &Plan, k: usize, seed: u64, iters: usize, acc: &mut Acc) {
    let wit = |extra: serde_json::Value| json!({"scheduler": sched_name(k), "sched_seed": seed, "plan": format!("{:?}", plan), "detail": extra});
    let p = Arc::new(plan.clone());
    let collected: Rc<RefCell<Vec<rec::Finished>>> = Rc::new(RefCell::new(vec![]));
    let c2 = collected.clone();
    let mut cfg = rec::base_config();
    cfg.max_steps = shuttle::MaxSteps::FailAfter(20_000);
    let rr = rec::run_streamed(
        make_sched(k, seed, iters),
        cfg,
        move || {
            run_thread(p.clone(), 0);
        },
        move |f| c2.borrow_mut().push(f),
    );
    let execs = std::mem::take(&mut *collected.borrow_mut());
    if let Term::Panic(m) = &rr.term {
        if !m.contains("did not exercise any concurrency") {
            acc.violation("thread-program-panicked", format!("a well-formed thread program panicked: {m}"), wit(json!(null)));
        }
    } else if rr.term != Term::Pass {
        acc.violation("thread-program-failed", format!("a well-formed thread program ended {:?}", rr.term), wit(json!(null)));
    }
    let n = execs.len();
    for (i, f) in execs.iter().enumerate() {
        acc.evaluations += 1;
        if rec::nontrivial(&f.log) {
            acc.distinct.insert(rec::hash_choices(&f.log));
        }
        acc.add("events_checked", f.log.events.len() as u64);
        for (sig, what) in rec::contract_check(&f.log, Some(&f.runtime_schedule)) {
            acc.violation(&format!("C08:{sig}"), what, wit(json!({"iteration": i})));
        }
        let completed = rr.term == Term::Pass || i + 1 < n;
        for (sig, what) in check_log(plan, &f.log, completed) {
            acc.violation(&sig, what, wit(json!({"iteration": i, "choices": rec::choice_seq(&f.log)})));
        }
    }
    if acc.samples.len() < 3 {
        acc.samples.push(json!({"scheduler": sched_name(k), "plan": format!("{:?}", plan), "executions": n}));
    }
}

pub fn run(r: &mut Report) {
    let mut rng = Rng::new(r.seed ^ 0xC07);
    let nplans = if r.quick() { 500 } else { 2000 };
    let iters = if r.quick() { 100 } else { 400 };
    let mut items: Vec<(Plan, usize, u64)> = vec![];
    for i in 0..nplans {
        let plan = gen_plan(&mut rng, 2 + i % 4);
        for k in [0usize, 2, 5, 6] {
            if r.quick() && (i + k) % 2 == 1 {
                continue;
            }
            items.push((plan.clone(), k, rng.next()));
        }
    }
    let accs = oracle::parallel(items.len(), oracle::workers(), |i, acc| {
        let (plan, k, seed) = &items[i];
        one_plan(plan, *k, *seed, iters, acc);
    });
    for a in accs {
        a.merge_into(r);
    }
    r.rule = "generated thread trees (1-5 threads, nested spawns, Builder names, joins in random order, some handles never joined, scoped threads borrowing stack data) whose threads touch four instrumented thread-locals in random order; destructors touch other thread-locals (alive / not yet initialised / already destroyed), themselves, and a mutex with a yield; run under random, PCT, URW and DFS; per execution the event log is checked: closure started once, join returns the closure's value after the closure ended and after every destructor of that thread, scope ends after all scoped threads, one instance per (thread,key), each instance destroyed exactly once by its own thread in initialisation order after the closure, access during/after destruction is an error, ids unique and equal to the task's, names as set. evaluations = executions; distinct_nontrivial = distinct choice sequences with a real choice".into();
}
