//! Workload language: bounded programs over the real Shuttle primitives, and the interpreter that
//! runs them inside a Shuttle execution while logging call/return events.
use crate::rec::body_event;
use shuttle::future::batch_semaphore::{BatchSemaphore, Fairness, TryAcquireError};
use shuttle::sync::atomic::{AtomicI64, Ordering};
use shuttle::sync::mpsc;
use shuttle::sync::{Barrier, Condvar, Mutex, MutexGuard, Once, RwLock, RwLockReadGuard, RwLockWriteGuard};
use std::cell::UnsafeCell;
use std::sync::Arc;

#[derive(Clone, Debug, PartialEq, Eq, Hash)]
pub enum Obj {
    Mutex,
    RwLock,
    Condvar,
    Barrier(usize),
    Once,
    /// None = unbounded, Some(k) = sync_channel(k)
    Chan(Option<usize>),
    Atomic(i64),
    Sem { permits: usize, fair: bool },
}

#[derive(Clone, Debug, PartialEq, Eq, Hash)]
pub enum Op {
    Lock(usize),
    TryLock(usize),
    Unlock(usize),
    Read(usize),
    TryRead(usize),
    Write(usize),
    TryWrite(usize),
    RUnlock(usize),
    WUnlock(usize),
    Wait { cv: usize, m: usize },
    NotifyOne(usize),
    NotifyAll(usize),
    BarrierWait(usize),
    /// call_once; the initializer performs fetch_add(1) on `atom` if given
    CallOnce { once: usize, atom: Option<usize> },
    IsCompleted(usize),
    Send(usize, i64),
    TrySend(usize, i64),
    Recv(usize),
    TryRecv(usize),
    DropTx(usize),
    DropRx(usize),
    Load(usize),
    Store(usize, i64),
    FetchAdd(usize, i64),
    Cas(usize, i64, i64),
    Swap(usize, i64),
    Spawn(usize),
    Join(usize),
    Park,
    Unpark(usize),
    Yield,
    Acquire(usize, usize),
    TryAcquire(usize, usize),
    Release(usize, usize),
    Close(usize),
    Avail(usize),
    IsClosed(usize),
    /// shuttle::rand draw; result is value % 1000
    Rand,
}

// result codes
pub const R_OK: i64 = 0;
pub const R_WOULDBLOCK: i64 = -1; // also Full / Empty / NoPermits
pub const R_DISCONNECTED: i64 = -2;
pub const R_CLOSED: i64 = -3;
pub const R_NOT_SPAWNED: i64 = -9;
pub const CAS_OK: i64 = 1_000_000;

#[derive(Clone, Debug, PartialEq, Eq, Hash)]
pub struct Prog {
    pub objs: Vec<Obj>,
    /// tasks[0] is the main task
    pub tasks: Vec<Vec<Op>>,
    /// for every channel object index: tasks that own a sender handle
    pub senders: Vec<(usize, Vec<usize>)>,
    /// for every channel object index: the task that owns the receiver
    pub receivers: Vec<(usize, usize)>,
}

impl Prog {
    pub fn describe(&self) -> serde_json::Value {
        serde_json::json!({
            "objs": self.objs.iter().map(|o| format!("{o:?}")).collect::<Vec<_>>(),
            "tasks": self.tasks.iter().map(|t| t.iter().map(|o| format!("{o:?}")).collect::<Vec<_>>()).collect::<Vec<_>>(),
            "senders": format!("{:?}", self.senders),
            "receivers": format!("{:?}", self.receivers),
        })
    }
    pub fn sender_owners(&self, ch: usize) -> &[usize] {
        self.senders.iter().find(|(c, _)| *c == ch).map(|(_, v)| &v[..]).unwrap_or(&[])
    }
    pub fn receiver_owner(&self, ch: usize) -> Option<usize> {
        self.receivers.iter().find(|(c, _)| *c == ch).map(|(_, t)| *t)
    }
    pub fn n_ops(&self) -> usize {
        self.tasks.iter().map(|t| t.len()).sum()
    }
}

/// A slot only ever touched by the one coroutine that is currently running.
pub struct Slot<T>(UnsafeCell<T>);
// SAFETY: a Shuttle execution runs all of its tasks on one OS thread, one at a time; a slot is
// accessed by short non-reentrant sections that never span a scheduling point (except a channel
// endpoint, which is only ever used by its single owning task).
unsafe impl<T> Sync for Slot<T> {}
unsafe impl<T> Send for Slot<T> {}
impl<T> Slot<T> {
    pub fn new(v: T) -> Self {
        Slot(UnsafeCell::new(v))
    }
    #[allow(clippy::mut_from_ref)]
    pub fn get(&self) -> &mut T {
        unsafe { &mut *self.0.get() }
    }
}

pub enum Tx {
    U(mpsc::Sender<i64>),
    S(mpsc::SyncSender<i64>),
}

pub enum RObj {
    Mutex(Mutex<i64>),
    RwLock(RwLock<i64>),
    Condvar(Condvar),
    Barrier(Barrier),
    Once(Once),
    Chan {
        tx: Vec<Slot<Option<Tx>>>, // indexed by dsl task
        rx: Slot<Option<mpsc::Receiver<i64>>>,
    },
    Atomic(AtomicI64),
    Sem(BatchSemaphore),
}

/// Shadow state kept in std containers, updated in the same atomic step as the real operation
/// returns. Violations are collected, not panicked on.
#[derive(Default)]
pub struct Shadow {
    pub mutex_holder: Vec<Option<usize>>,
    pub rw_writer: Vec<Option<usize>>,
    pub rw_readers: Vec<Vec<usize>>,
    pub violations: Vec<String>,
}

pub struct World {
    pub prog: Prog,
    pub objs: Vec<RObj>,
    pub results: std::sync::Mutex<Vec<Vec<i64>>>,
    pub threads: Vec<Slot<Option<shuttle::thread::Thread>>>,
    pub shadow: std::sync::Mutex<Shadow>,
    pub clocks: bool,
    pub clock_log: std::sync::Mutex<Vec<(usize, usize, Vec<u32>)>>,
}

pub const TAG_CALL: u32 = 1 << 31;
pub const TAG_SPAWNMAP: u32 = 1 << 30;
pub const TAG_START: u32 = 1 << 29;

pub fn op_tag(task: usize, opi: usize) -> u32 {
    ((task as u32) << 12) | opi as u32
}
pub fn tag_task(tag: u32) -> usize {
    ((tag & !(TAG_CALL | TAG_SPAWNMAP | TAG_START)) >> 12) as usize
}
pub fn tag_op(tag: u32) -> usize {
    (tag & 0xfff) as usize
}

impl World {
    /// Channel endpoints the program never dropped must not be dropped outside of an execution
    /// (their destructors talk to the runtime): forget them.
    pub fn forget_endpoints(&self) {
        for o in &self.objs {
            if let RObj::Chan { tx, rx } = o {
                for s in tx {
                    if let Some(h) = s.get().take() {
                        std::mem::forget(h);
                    }
                }
                if let Some(h) = rx.get().take() {
                    std::mem::forget(h);
                }
            }
        }
    }

    /// Must be called inside a Shuttle execution (channels and barriers register with the runtime).
    pub fn build(prog: &Prog, clocks: bool) -> Arc<World> {
        let nt = prog.tasks.len();
        let mut objs = vec![];
        for (i, o) in prog.objs.iter().enumerate() {
            objs.push(match o {
                Obj::Mutex => RObj::Mutex(Mutex::new(0)),
                Obj::RwLock => RObj::RwLock(RwLock::new(0)),
                Obj::Condvar => RObj::Condvar(Condvar::new()),
                Obj::Barrier(n) => RObj::Barrier(Barrier::new(*n)),
                Obj::Once => RObj::Once(Once::new()),
                Obj::Chan(cap) => {
                    let owners = prog.sender_owners(i);
                    let tx: Vec<Slot<Option<Tx>>> = (0..nt).map(|_| Slot::new(None)).collect();
                    let rx;
                    match cap {
                        None => {
                            let (s, r) = mpsc::channel::<i64>();
                            for (k, t) in owners.iter().enumerate() {
                                if k + 1 < owners.len() {
                                    *tx[*t].get() = Some(Tx::U(s.clone()));
                                }
                            }
                            if let Some(t) = owners.last() {
                                *tx[*t].get() = Some(Tx::U(s));
                            } else {
                                std::mem::forget(s);
                            }
                            rx = r;
                        }
                        Some(k) => {
                            let (s, r) = mpsc::sync_channel::<i64>(*k);
                            for (j, t) in owners.iter().enumerate() {
                                if j + 1 < owners.len() {
                                    *tx[*t].get() = Some(Tx::S(s.clone()));
                                }
                            }
                            if let Some(t) = owners.last() {
                                *tx[*t].get() = Some(Tx::S(s));
                            } else {
                                std::mem::forget(s);
                            }
                            rx = r;
                        }
                    }
                    let rx = if prog.receiver_owner(i).is_some() {
                        Slot::new(Some(rx))
                    } else {
                        std::mem::forget(rx);
                        Slot::new(None)
                    };
                    RObj::Chan { tx, rx }
                }
                Obj::Atomic(v) => RObj::Atomic(AtomicI64::new(*v)),
                Obj::Sem { permits, fair } => RObj::Sem(BatchSemaphore::new(
                    *permits,
                    if *fair { Fairness::StrictlyFair } else { Fairness::Unfair },
                )),
            });
        }
        let no = prog.objs.len();
        Arc::new(World {
            prog: prog.clone(),
            objs,
            results: std::sync::Mutex::new(vec![vec![]; nt]),
            threads: (0..nt).map(|_| Slot::new(None)).collect(),
            shadow: std::sync::Mutex::new(Shadow {
                mutex_holder: vec![None; no],
                rw_writer: vec![None; no],
                rw_readers: vec![vec![]; no],
                violations: vec![],
            }),
            clocks,
            clock_log: std::sync::Mutex::new(vec![]),
        })
    }
}

/// The body of a whole program: builds the world and runs task 0. Returns the world so that the
/// caller (outside the execution) can read results; the `out` slot receives it.
pub fn run_prog(prog: &Prog, clocks: bool, out: &std::sync::Mutex<Option<Arc<World>>>) {
    let w = World::build(prog, clocks);
    *out.lock().unwrap() = Some(w.clone());
    *w.threads[0].get() = Some(shuttle::thread::current());
    run_task(w, 0);
}

fn shadow_violation(w: &World, s: String) {
    let mut sh = w.shadow.lock().unwrap();
    if sh.violations.len() < 16 {
        sh.violations.push(s);
    }
}

pub fn run_task(w: Arc<World>, t: usize) -> i64 {
    let world: &World = &w;
    let ops = &world.prog.tasks[t];
    let no = world.objs.len();
    let mut mg: Vec<Option<MutexGuard<'_, i64>>> = (0..no).map(|_| None).collect();
    let mut rg: Vec<Vec<RwLockReadGuard<'_, i64>>> = (0..no).map(|_| vec![]).collect();
    let mut wg: Vec<Option<RwLockWriteGuard<'_, i64>>> = (0..no).map(|_| None).collect();
    let mut handles: Vec<Option<shuttle::thread::JoinHandle<i64>>> = (0..world.prog.tasks.len()).map(|_| None).collect();
    body_event(TAG_START | op_tag(t, 0), t as i64, 0);

    for (opi, op) in ops.iter().enumerate() {
        let tag = op_tag(t, opi);
        body_event(TAG_CALL | tag, 0, 0);
        let res: i64 = match op {
            Op::Lock(m) => {
                let RObj::Mutex(mx) = &world.objs[*m] else { panic!("bad obj") };
                let mut g = match mx.lock() {
                    Ok(g) => g,
                    Err(p) => p.into_inner(),
                };
                {
                    let mut sh = world.shadow.lock().unwrap();
                    if let Some(h) = sh.mutex_holder[*m] {
                        let s = format!("mutex {m}: task {t} acquired while task {h} holds it");
                        if sh.violations.len() < 16 {
                            sh.violations.push(s);
                        }
                    }
                    sh.mutex_holder[*m] = Some(t);
                }
                let v = *g;
                *g += 1;
                mg[*m] = Some(g);
                v
            }
            Op::TryLock(m) => {
                let RObj::Mutex(mx) = &world.objs[*m] else { panic!("bad obj") };
                match mx.try_lock() {
                    Ok(mut g) => {
                        {
                            let mut sh = world.shadow.lock().unwrap();
                            if let Some(h) = sh.mutex_holder[*m] {
                                let s = format!("mutex {m}: task {t} try-acquired while task {h} holds it");
                                if sh.violations.len() < 16 {
                                    sh.violations.push(s);
                                }
                            }
                            sh.mutex_holder[*m] = Some(t);
                        }
                        let v = *g;
                        *g += 1;
                        if mg[*m].is_some() {
                            shadow_violation(world, format!("mutex {m}: task {t} try_lock succeeded re-entrantly"));
                            std::mem::forget(g);
                        } else {
                            mg[*m] = Some(g);
                        }
                        v
                    }
                    Err(_) => R_WOULDBLOCK,
                }
            }
            Op::Unlock(m) => {
                if let Some(g) = mg[*m].take() {
                    world.shadow.lock().unwrap().mutex_holder[*m] = None;
                    drop(g);
                    R_OK
                } else {
                    R_NOT_SPAWNED
                }
            }
            Op::Read(l) => {
                let RObj::RwLock(rw) = &world.objs[*l] else { panic!("bad obj") };
                let g = match rw.read() {
                    Ok(g) => g,
                    Err(p) => p.into_inner(),
                };
                {
                    let mut sh = world.shadow.lock().unwrap();
                    if let Some(h) = sh.rw_writer[*l] {
                        let s = format!("rwlock {l}: task {t} read-acquired while task {h} holds it for writing");
                        if sh.violations.len() < 16 {
                            sh.violations.push(s);
                        }
                    }
                    sh.rw_readers[*l].push(t);
                }
                let v = *g;
                rg[*l].push(g);
                v
            }
            Op::TryRead(l) => {
                let RObj::RwLock(rw) = &world.objs[*l] else { panic!("bad obj") };
                match rw.try_read() {
                    Ok(g) => {
                        {
                            let mut sh = world.shadow.lock().unwrap();
                            if let Some(h) = sh.rw_writer[*l] {
                                let s = format!("rwlock {l}: task {t} try_read succeeded while task {h} holds it for writing");
                                if sh.violations.len() < 16 {
                                    sh.violations.push(s);
                                }
                            }
                            sh.rw_readers[*l].push(t);
                        }
                        let v = *g;
                        rg[*l].push(g);
                        v
                    }
                    Err(_) => R_WOULDBLOCK,
                }
            }
            Op::Write(l) => {
                let RObj::RwLock(rw) = &world.objs[*l] else { panic!("bad obj") };
                let mut g = match rw.write() {
                    Ok(g) => g,
                    Err(p) => p.into_inner(),
                };
                {
                    let mut sh = world.shadow.lock().unwrap();
                    if sh.rw_writer[*l].is_some() || !sh.rw_readers[*l].is_empty() {
                        let s = format!(
                            "rwlock {l}: task {t} write-acquired while writer {:?} readers {:?} hold it",
                            sh.rw_writer[*l], sh.rw_readers[*l]
                        );
                        if sh.violations.len() < 16 {
                            sh.violations.push(s);
                        }
                    }
                    sh.rw_writer[*l] = Some(t);
                }
                let v = *g;
                *g += 1;
                wg[*l] = Some(g);
                v
            }
            Op::TryWrite(l) => {
                let RObj::RwLock(rw) = &world.objs[*l] else { panic!("bad obj") };
                match rw.try_write() {
                    Ok(mut g) => {
                        {
                            let mut sh = world.shadow.lock().unwrap();
                            if sh.rw_writer[*l].is_some() || !sh.rw_readers[*l].is_empty() {
                                let s = format!(
                                    "rwlock {l}: task {t} try_write succeeded while writer {:?} readers {:?} hold it",
                                    sh.rw_writer[*l], sh.rw_readers[*l]
                                );
                                if sh.violations.len() < 16 {
                                    sh.violations.push(s);
                                }
                            }
                            sh.rw_writer[*l] = Some(t);
                        }
                        let v = *g;
                        *g += 1;
                        wg[*l] = Some(g);
                        v
                    }
                    Err(_) => R_WOULDBLOCK,
                }
            }
            Op::RUnlock(l) => {
                if let Some(g) = rg[*l].pop() {
                    {
                        let mut sh = world.shadow.lock().unwrap();
                        if let Some(p) = sh.rw_readers[*l].iter().position(|x| *x == t) {
                            sh.rw_readers[*l].remove(p);
                        }
                    }
                    drop(g);
                    R_OK
                } else {
                    R_NOT_SPAWNED
                }
            }
            Op::WUnlock(l) => {
                if let Some(g) = wg[*l].take() {
                    world.shadow.lock().unwrap().rw_writer[*l] = None;
                    drop(g);
                    R_OK
                } else {
                    R_NOT_SPAWNED
                }
            }
            Op::Wait { cv, m } => {
                let RObj::Condvar(c) = &world.objs[*cv] else { panic!("bad obj") };
                if let Some(g) = mg[*m].take() {
                    world.shadow.lock().unwrap().mutex_holder[*m] = None;
                    let g = match c.wait(g) {
                        Ok(g) => g,
                        Err(p) => p.into_inner(),
                    };
                    {
                        let mut sh = world.shadow.lock().unwrap();
                        if let Some(h) = sh.mutex_holder[*m] {
                            let s = format!("mutex {m}: task {t} returned from wait while task {h} holds the mutex");
                            if sh.violations.len() < 16 {
                                sh.violations.push(s);
                            }
                        }
                        sh.mutex_holder[*m] = Some(t);
                    }
                    let v = *g;
                    mg[*m] = Some(g);
                    v
                } else {
                    R_NOT_SPAWNED
                }
            }
            Op::NotifyOne(cv) => {
                let RObj::Condvar(c) = &world.objs[*cv] else { panic!("bad obj") };
                c.notify_one();
                R_OK
            }
            Op::NotifyAll(cv) => {
                let RObj::Condvar(c) = &world.objs[*cv] else { panic!("bad obj") };
                c.notify_all();
                R_OK
            }
            Op::BarrierWait(b) => {
                let RObj::Barrier(bar) = &world.objs[*b] else { panic!("bad obj") };
                if bar.wait().is_leader() {
                    1
                } else {
                    0
                }
            }
            Op::CallOnce { once, atom } => {
                let RObj::Once(o) = &world.objs[*once] else { panic!("bad obj") };
                let mut ran = 0;
                o.call_once(|| {
                    ran = 1;
                    body_event(TAG_CALL | tag, 7, 0); // initializer entered
                    if let Some(a) = atom {
                        let RObj::Atomic(at) = &world.objs[*a] else { panic!("bad obj") };
                        at.fetch_add(1, Ordering::SeqCst);
                    }
                    body_event(TAG_CALL | tag, 8, 0); // initializer about to return
                });
                ran
            }
            Op::IsCompleted(once) => {
                let RObj::Once(o) = &world.objs[*once] else { panic!("bad obj") };
                o.is_completed() as i64
            }
            Op::Send(ch, v) => {
                let RObj::Chan { tx, .. } = &world.objs[*ch] else { panic!("bad obj") };
                match tx[t].get() {
                    Some(Tx::U(s)) => match s.send(*v) {
                        Ok(()) => R_OK,
                        Err(_) => R_DISCONNECTED,
                    },
                    Some(Tx::S(s)) => match s.send(*v) {
                        Ok(()) => R_OK,
                        Err(_) => R_DISCONNECTED,
                    },
                    None => R_NOT_SPAWNED,
                }
            }
            Op::TrySend(ch, v) => {
                let RObj::Chan { tx, .. } = &world.objs[*ch] else { panic!("bad obj") };
                match tx[t].get() {
                    Some(Tx::U(s)) => match s.send(*v) {
                        Ok(()) => R_OK,
                        Err(_) => R_DISCONNECTED,
                    },
                    Some(Tx::S(s)) => match s.try_send(*v) {
                        Ok(()) => R_OK,
                        Err(mpsc::TrySendError::Full(_)) => R_WOULDBLOCK,
                        Err(mpsc::TrySendError::Disconnected(_)) => R_DISCONNECTED,
                    },
                    None => R_NOT_SPAWNED,
                }
            }
            Op::Recv(ch) => {
                let RObj::Chan { rx, .. } = &world.objs[*ch] else { panic!("bad obj") };
                match rx.get() {
                    Some(r) => match r.recv() {
                        Ok(v) => v,
                        Err(_) => R_DISCONNECTED,
                    },
                    None => R_NOT_SPAWNED,
                }
            }
            Op::TryRecv(ch) => {
                let RObj::Chan { rx, .. } = &world.objs[*ch] else { panic!("bad obj") };
                match rx.get() {
                    Some(r) => match r.try_recv() {
                        Ok(v) => v,
                        Err(mpsc::TryRecvError::Empty) => R_WOULDBLOCK,
                        Err(mpsc::TryRecvError::Disconnected) => R_DISCONNECTED,
                    },
                    None => R_NOT_SPAWNED,
                }
            }
            Op::DropTx(ch) => {
                let RObj::Chan { tx, .. } = &world.objs[*ch] else { panic!("bad obj") };
                match tx[t].get().take() {
                    Some(h) => {
                        drop(h);
                        R_OK
                    }
                    None => R_NOT_SPAWNED,
                }
            }
            Op::DropRx(ch) => {
                let RObj::Chan { rx, .. } = &world.objs[*ch] else { panic!("bad obj") };
                match rx.get().take() {
                    Some(h) => {
                        drop(h);
                        R_OK
                    }
                    None => R_NOT_SPAWNED,
                }
            }
            Op::Load(a) => {
                let RObj::Atomic(at) = &world.objs[*a] else { panic!("bad obj") };
                at.load(Ordering::SeqCst)
            }
            Op::Store(a, v) => {
                let RObj::Atomic(at) = &world.objs[*a] else { panic!("bad obj") };
                at.store(*v, Ordering::SeqCst);
                R_OK
            }
            Op::FetchAdd(a, v) => {
                let RObj::Atomic(at) = &world.objs[*a] else { panic!("bad obj") };
                at.fetch_add(*v, Ordering::SeqCst)
            }
            Op::Cas(a, old, new) => {
                let RObj::Atomic(at) = &world.objs[*a] else { panic!("bad obj") };
                match at.compare_exchange(*old, *new, Ordering::SeqCst, Ordering::SeqCst) {
                    Ok(v) => CAS_OK + v,
                    Err(v) => v,
                }
            }
            Op::Swap(a, v) => {
                let RObj::Atomic(at) = &world.objs[*a] else { panic!("bad obj") };
                at.swap(*v, Ordering::SeqCst)
            }
            Op::Spawn(c) => {
                let w2 = w.clone();
                let c2 = *c;
                let h = shuttle::thread::spawn(move || run_task(w2, c2));
                let sid: usize = h.thread().id().into();
                *world.threads[*c].get() = Some(h.thread().clone());
                body_event(TAG_SPAWNMAP | op_tag(*c, 0), *c as i64, sid as i64);
                handles[*c] = Some(h);
                R_OK
            }
            Op::Join(c) => match handles[*c].take() {
                Some(h) => h.join().unwrap_or(-77),
                None => R_NOT_SPAWNED,
            },
            Op::Park => {
                shuttle::thread::park();
                R_OK
            }
            Op::Unpark(c) => match world.threads[*c].get().as_ref() {
                Some(th) => {
                    let th = th.clone();
                    th.unpark();
                    R_OK
                }
                None => R_NOT_SPAWNED,
            },
            Op::Yield => {
                shuttle::thread::yield_now();
                R_OK
            }
            Op::Acquire(s, n) => {
                let RObj::Sem(sem) = &world.objs[*s] else { panic!("bad obj") };
                match sem.acquire_blocking(*n) {
                    Ok(()) => R_OK,
                    Err(_) => R_CLOSED,
                }
            }
            Op::TryAcquire(s, n) => {
                let RObj::Sem(sem) = &world.objs[*s] else { panic!("bad obj") };
                match sem.try_acquire(*n) {
                    Ok(()) => R_OK,
                    Err(TryAcquireError::NoPermits) => R_WOULDBLOCK,
                    Err(TryAcquireError::Closed) => R_CLOSED,
                }
            }
            Op::Release(s, n) => {
                let RObj::Sem(sem) = &world.objs[*s] else { panic!("bad obj") };
                sem.release(*n);
                R_OK
            }
            Op::Close(s) => {
                let RObj::Sem(sem) = &world.objs[*s] else { panic!("bad obj") };
                sem.close();
                R_OK
            }
            Op::Avail(s) => {
                let RObj::Sem(sem) = &world.objs[*s] else { panic!("bad obj") };
                sem.available_permits() as i64
            }
            Op::IsClosed(s) => {
                let RObj::Sem(sem) = &world.objs[*s] else { panic!("bad obj") };
                sem.is_closed() as i64
            }
            Op::Rand => {
                use shuttle::rand::Rng;
                (shuttle::rand::thread_rng().gen::<u64>() % 1000) as i64
            }
        };
        world.results.lock().unwrap()[t].push(res);
        body_event(tag, res, 0);
        if world.clocks {
            let c = shuttle::current::clock();
            world.clock_log.lock().unwrap().push((t, opi, c.to_vec()));
        }
    }
    // Nothing visible may happen implicitly at task end: leftover guards are forgotten.
    for g in mg.into_iter().flatten() {
        std::mem::forget(g);
    }
    for v in rg.into_iter() {
        for g in v {
            std::mem::forget(g);
        }
    }
    for g in wg.into_iter().flatten() {
        std::mem::forget(g);
    }
    100 + t as i64
}
