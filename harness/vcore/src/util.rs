//! Small shared helpers: seeded RNG, evidence writer, known findings, stderr control, verdicts.
use serde_json::{json, Value};
use std::collections::BTreeSet;
use std::io::Write;
use std::time::Instant;

/// SplitMix64: every random choice of the harness derives from VERIF_SEED through this.
#[derive(Clone, Debug)]
pub struct Rng(pub u64);

impl Rng {
    pub fn new(seed: u64) -> Self {
        Rng(seed.wrapping_mul(0x9E3779B97F4A7C15) ^ 0xD1B54A32D192ED03)
    }
    pub fn next(&mut self) -> u64 {
        self.0 = self.0.wrapping_add(0x9E3779B97F4A7C15);
        let mut z = self.0;
        z = (z ^ (z >> 30)).wrapping_mul(0xBF58476D1CE4E5B9);
        z = (z ^ (z >> 27)).wrapping_mul(0x94D049BB133111EB);
        z ^ (z >> 31)
    }
    pub fn below(&mut self, n: usize) -> usize {
        if n == 0 {
            0
        } else {
            (self.next() % n as u64) as usize
        }
    }
    pub fn range(&mut self, lo: usize, hi_incl: usize) -> usize {
        lo + self.below(hi_incl - lo + 1)
    }
    pub fn chance(&mut self, num: usize, den: usize) -> bool {
        self.below(den) < num
    }
    pub fn pick<'a, T>(&mut self, xs: &'a [T]) -> &'a T {
        &xs[self.below(xs.len())]
    }
    pub fn fork(&mut self) -> Rng {
        Rng::new(self.next())
    }
}

pub fn seed_from_env() -> u64 {
    std::env::var("VERIF_SEED").ok().and_then(|s| s.parse::<u64>().ok()).unwrap_or(1)
}

pub fn hash64(bytes: &[u8]) -> u64 {
    // FNV-1a, good enough for de-duplication of schedules / cases
    let mut h = 0xcbf29ce484222325u64;
    for b in bytes {
        h ^= *b as u64;
        h = h.wrapping_mul(0x100000001b3);
    }
    h
}

pub const VERIF_DIR: &str = "/verif";

/// Where evidence, replays and scratch files go. Normally `/verif`; `VERIF_OUT_DIR` redirects them
/// (used when a scratch copy of the harness is run against a scratch worktree of the repository, so
/// that such a run never touches the committed evidence). Known findings are always read from the
/// committed file.
pub fn out_dir() -> String {
    std::env::var("VERIF_OUT_DIR").unwrap_or_else(|_| VERIF_DIR.to_string())
}

/// A violation found by a monitor. `sig` identifies it for known-finding purposes.
#[derive(Clone, Debug)]
pub struct Violation {
    pub sig: String,
    pub what: String,
    pub witness: Value,
}

/// Collects what a check observed and writes the evidence file / verdict lines.
pub struct Report {
    pub id: String,
    pub tier: String,
    pub seed: u64,
    pub start: Instant,
    pub evaluations: u64,
    pub distinct: BTreeSet<u64>,
    pub rule: String,
    pub samples: Vec<Value>,
    pub extra: serde_json::Map<String, Value>,
    pub assumptions: Vec<String>,
    pub violations: Vec<Violation>,
    pub known_hit: Vec<String>,
    pub inconclusive: Vec<String>,
    known: Vec<KnownFinding>,
}

#[derive(Clone, Debug)]
pub struct KnownFinding {
    pub property: String,
    pub sig: String,
    pub what: String,
    pub status: String, // "open" | "fixed"
}

pub fn load_known() -> Vec<KnownFinding> {
    let p = format!("{VERIF_DIR}/known_findings.json");
    let Ok(s) = std::fs::read_to_string(&p) else { return vec![] };
    let Ok(v) = serde_json::from_str::<Value>(&s) else { return vec![] };
    let mut out = vec![];
    if let Some(a) = v.get("findings").and_then(|x| x.as_array()) {
        for f in a {
            out.push(KnownFinding {
                property: f["property"].as_str().unwrap_or("").to_string(),
                sig: f["signature"].as_str().unwrap_or("").to_string(),
                what: f["what"].as_str().unwrap_or("").to_string(),
                status: f["status"].as_str().unwrap_or("open").to_string(),
            });
        }
    }
    out
}

impl Report {
    pub fn new(id: &str, tier: &str, seed: u64) -> Self {
        Report {
            id: id.to_string(),
            tier: tier.to_string(),
            seed,
            start: Instant::now(),
            evaluations: 0,
            distinct: BTreeSet::new(),
            rule: String::new(),
            samples: vec![],
            extra: serde_json::Map::new(),
            assumptions: vec![],
            violations: vec![],
            known_hit: vec![],
            inconclusive: vec![],
            known: load_known(),
        }
    }

    pub fn quick(&self) -> bool {
        self.tier == "quick"
    }

    pub fn sample(&mut self, v: Value) {
        if self.samples.len() < 6 {
            self.samples.push(v);
        }
    }

    pub fn set(&mut self, k: &str, v: Value) {
        self.extra.insert(k.to_string(), v);
    }

    pub fn add(&mut self, k: &str, n: u64) {
        let cur = self.extra.get(k).and_then(|v| v.as_u64()).unwrap_or(0);
        self.extra.insert(k.to_string(), json!(cur + n));
    }

    /// Record a violation unless an *open* known finding with exactly this signature explains it.
    pub fn violation(&mut self, sig: &str, what: &str, witness: Value) {
        if self
            .known
            .iter()
            .any(|k| k.property == self.id && k.status == "open" && k.sig == sig)
        {
            if !self.known_hit.iter().any(|s| s == sig) {
                self.known_hit.push(sig.to_string());
            }
            return;
        }
        if self.violations.len() < 400 && self.violations.iter().filter(|v| v.sig == sig).count() < 3 {
            self.violations.push(Violation {
                sig: sig.to_string(),
                what: what.to_string(),
                witness,
            });
        }
    }

    pub fn is_known_open(&self, sig: &str) -> bool {
        self.known
            .iter()
            .any(|k| k.property == self.id && k.status == "open" && k.sig == sig)
    }

    /// Write evidence, print verdict lines, return the process exit code.
    pub fn finish(mut self) -> i32 {
        let wall = self.start.elapsed().as_secs_f64();
        let distinct = self.distinct.len() as u64;
        let mut coverage = serde_json::Map::new();
        coverage.insert("evaluations".into(), json!(self.evaluations));
        coverage.insert("distinct_nontrivial".into(), json!(distinct));
        coverage.insert("rule".into(), json!(self.rule));
        coverage.insert("samples".into(), json!(self.samples));
        coverage.insert("known_findings_hit".into(), json!(self.known_hit));
        coverage.insert("inconclusive_notes".into(), json!(self.inconclusive));
        for (k, v) in self.extra.iter() {
            coverage.insert(k.clone(), v.clone());
        }
        let ev = json!({
            "property_id": self.id,
            "tier": self.tier,
            "seed": self.seed,
            "level": "exploration",
            "coverage": Value::Object(coverage),
            "assumptions": self.assumptions,
            "wall_s": wall,
            "violations": self.violations.len(),
        });
        let dir = format!("{}/evidence", out_dir());
        let _ = std::fs::create_dir_all(&dir);
        let path = format!("{dir}/{}.json", self.id);
        let tmp = format!("{path}.tmp");
        std::fs::write(&tmp, serde_json::to_string_pretty(&ev).unwrap()).expect("write evidence");
        std::fs::rename(&tmp, &path).expect("rename evidence");
        if self.tier == "thorough" {
            // keep the deep run's record next to the per-change one (which the next quick run overwrites)
            let tdir = format!("{}/evidence_thorough", out_dir());
            let _ = std::fs::create_dir_all(&tdir);
            let _ = std::fs::copy(&path, format!("{tdir}/{}.json", self.id));
        }

        let out = std::io::stdout();
        let mut out = out.lock();
        for sig in &self.known_hit {
            let what = self
                .known
                .iter()
                .find(|k| &k.sig == sig && k.property == self.id)
                .map(|k| k.what.clone())
                .unwrap_or_default();
            let _ = writeln!(out, "KNOWN-FINDING: property={} {} ({})", self.id, sig, what);
        }
        if !self.violations.is_empty() {
            let rdir = format!("{}/replays", out_dir());
            let _ = std::fs::create_dir_all(&rdir);
            if let Ok(rd) = std::fs::read_dir(&rdir) {
                for e in rd.flatten() {
                    if e.file_name().to_string_lossy().starts_with(&format!("{}-", self.id)) {
                        let _ = std::fs::remove_file(e.path());
                    }
                }
            }
            // de-duplicate by signature for printing
            let mut seen = BTreeSet::new();
            let vs = std::mem::take(&mut self.violations);
            for (i, v) in vs.iter().enumerate() {
                if !seen.insert(v.sig.clone()) {
                    continue;
                }
                let rp = format!("{rdir}/{}-{}-{}.json", self.id, self.seed, i);
                let w = json!({"property": self.id, "signature": v.sig, "what": v.what, "seed": self.seed, "tier": self.tier, "witness": v.witness});
                let _ = std::fs::write(&rp, serde_json::to_string_pretty(&w).unwrap());
                let _ = writeln!(out, "VIOLATION property={} replay={}", self.id, rp);
                let _ = writeln!(out, "  signature: {}", v.sig);
                let _ = writeln!(out, "  what: {}", v.what);
            }
            let _ = writeln!(
                out,
                "{}: VIOLATED ({} distinct signatures) evaluations={} distinct={} wall={:.1}s",
                self.id,
                seen.len(),
                self.evaluations,
                distinct,
                wall
            );
            return 1;
        }
        let watchdog = self.extra.get("watchdog_kills").and_then(|v| v.as_u64()).unwrap_or(0);
        if watchdog > 0 {
            let _ = writeln!(out, "{}: INCONCLUSIVE {} work item(s) were abandoned by the wall-clock watchdog (evaluations={} distinct={})", self.id, watchdog, self.evaluations, distinct);
            return 2;
        }
        if self.evaluations == 0 || distinct < 2 {
            let _ = writeln!(
                out,
                "{}: INCONCLUSIVE observed too little (evaluations={} distinct={})",
                self.id, self.evaluations, distinct
            );
            return 2;
        }
        let _ = writeln!(
            out,
            "{}: held on what was observed: evaluations={} distinct_nontrivial={} known_findings={} wall={:.1}s",
            self.id,
            self.evaluations,
            distinct,
            self.known_hit.len(),
            wall
        );
        0
    }
}

/// Redirect stderr of this process to /dev/null (or a file) so that the millions of lines Shuttle
/// prints for failing executions do not swamp the output. VERIF_STDERR=keep disables it.
pub fn quiet_stderr() {
    if std::env::var("VERIF_STDERR").map(|v| v == "keep").unwrap_or(false) {
        return;
    }
    extern "C" {
        fn dup2(a: i32, b: i32) -> i32;
        fn open(path: *const u8, flags: i32, mode: u32) -> i32;
    }
    unsafe {
        let fd = open(b"/dev/null\0".as_ptr(), 1 /* O_WRONLY */, 0);
        if fd >= 0 {
            dup2(fd, 2);
        }
    }
}

/// Make panics silent. Shuttle installs its hook once per process (a `Once`), taking whatever hook
/// is current; running one trivial execution first and then installing ours replaces Shuttle's hook
/// for good, so nothing is printed per failing execution. Not used by checks that are about the
/// hook itself (C12).
pub fn silence_panics() {
    let _ = std::panic::catch_unwind(|| {
        let cfg = crate::rec::base_config();
        let r = shuttle::Runner::new(shuttle::scheduler::RoundRobinScheduler::new(1), cfg);
        r.run(|| {});
    });
    if std::env::var("VERIF_STDERR").map(|v| v == "keep").unwrap_or(false) {
        std::panic::set_hook(Box::new(|info| {
            eprintln!("PANIC: {info}");
            if std::env::var("VERIF_BACKTRACE").is_ok() {
                eprintln!("{}", std::backtrace::Backtrace::force_capture());
            }
        }));
    } else {
        std::panic::set_hook(Box::new(|_| {}));
    }
}

/// The running binary itself (child-process entry points). `/proc/self/exe` keeps working when the
/// file on disk has been replaced by a rebuild while this process runs.
pub fn self_exe() -> std::path::PathBuf {
    let p = std::path::PathBuf::from("/proc/self/exe");
    if p.exists() {
        p
    } else {
        std::env::current_exe().expect("current_exe")
    }
}

pub fn panic_message(p: &Box<dyn std::any::Any + Send>) -> String {
    if let Some(s) = p.downcast_ref::<String>() {
        s.clone()
    } else if let Some(s) = p.downcast_ref::<&str>() {
        s.to_string()
    } else {
        "<non-string payload>".to_string()
    }
}
