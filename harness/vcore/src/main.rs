use vcore::{checks, util};

fn main() {
    let args: Vec<String> = std::env::args().collect();
    if args.len() < 2 {
        eprintln!("usage: verif <Cxx> [--tier quick|thorough]");
        std::process::exit(2);
    }
    let id = args[1].clone();
    let mut tier = std::env::var("VERIF_TIER").unwrap_or_else(|_| "quick".to_string());
    let mut i = 2;
    while i < args.len() {
        if args[i] == "--tier" && i + 1 < args.len() {
            tier = args[i + 1].clone();
            i += 1;
        }
        i += 1;
    }
    let seed = util::seed_from_env();
    if id != "C12" {
        util::quiet_stderr();
        util::silence_panics();
    }
    if id == "bench" {
        checks::bench();
        return;
    }
    let code = checks::run(&id, &tier, seed);
    std::process::exit(code);
}
