use vcore::{checks, util};

fn main() {
    let args: Vec<String> = std::env::args().collect();
    if args.len() < 2 {
        eprintln!("usage: verif <Cxx> [--tier quick|thorough] [--replay file]");
        std::process::exit(2);
    }
    let id = args[1].clone();
    // child-process entry points (process-global state must be observed in fresh processes)
    match id.as_str() {
        "c12child" => {
            checks::c12::child(&args[2..]);
            return;
        }
        "c12replay" => {
            checks::c12::replay_child(&args[2..]);
            return;
        }
        "c12portfolio2" => {
            checks::c12::portfolio2_child(&args[2..]);
            return;
        }
        "c12portfolio" => {
            checks::c12::portfolio_child(&args[2..]);
            return;
        }
        "sanit" => {
            util::silence_panics();
            checks::sanit::child(&args[2..]);
            return;
        }
        _ => {}
    }
    let mut tier = std::env::var("VERIF_TIER").unwrap_or_else(|_| "quick".to_string());
    let mut replay: Option<String> = None;
    let mut i = 2;
    while i < args.len() {
        if args[i] == "--tier" && i + 1 < args.len() {
            tier = args[i + 1].clone();
            i += 1;
        } else if args[i] == "--replay" && i + 1 < args.len() {
            replay = Some(args[i + 1].clone());
            i += 1;
        }
        i += 1;
    }
    let mut seed = util::seed_from_env();
    if let Some(path) = &replay {
        // a replay file records the seed and tier of the run that found the violation; re-running the
        // check with them regenerates the same workload deterministically
        if let Ok(s) = std::fs::read_to_string(path) {
            if let Ok(v) = serde_json::from_str::<serde_json::Value>(&s) {
                if let Some(x) = v["seed"].as_u64() {
                    seed = x;
                }
                if let Some(t) = v["tier"].as_str() {
                    tier = t.to_string();
                }
                println!("replaying {} (signature {}): seed {seed}, tier {tier}", path, v["signature"]);
            }
        }
    }
    if id != "C12" {
        util::quiet_stderr();
        util::silence_panics();
    }
    if id == "bench" {
        checks::bench();
        return;
    }
    std::env::set_var("VERIF_TIER", &tier);
    let code = checks::run(&id, &tier, seed);
    std::process::exit(code);
}
