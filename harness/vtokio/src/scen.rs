//! Scheduled scenarios over the tokio replacements: correct tokio programs with built-in
//! invariant checks (exactly-once FIFO delivery by unique id, capacity, slot conservation across
//! every receive path, Notify permit rules, lock exclusion and FIFO fairness, JoinSet/abort/timeout).
//! A scenario fails by panicking with a message, by deadlocking, or by hitting the step bound.
use std::sync::atomic::{AtomicUsize, Ordering};
use std::sync::{Arc, Mutex as StdMutex};
use stokio::sync::{mpsc, oneshot, watch, Mutex, Notify, RwLock, Semaphore};

pub type Body = Arc<dyn Fn() + Send + Sync>;

fn block_on<F: std::future::Future>(f: F) -> F::Output {
    shuttle::future::block_on(f)
}

/// Handshake built from Shuttle's std primitives (not from the tokio replacements under test):
/// a counter that tasks bump and wait on without spinning.
#[derive(Clone)]
pub struct Gate(Arc<(shuttle::sync::Mutex<usize>, shuttle::sync::Condvar)>);
impl Gate {
    pub fn new() -> Self {
        Gate(Arc::new((shuttle::sync::Mutex::new(0), shuttle::sync::Condvar::new())))
    }
    pub fn bump(&self) {
        *self.0 .0.lock().unwrap() += 1;
        self.0 .1.notify_all();
    }
    pub fn wait_for(&self, n: usize) {
        let mut g = self.0 .0.lock().unwrap();
        while *g < n {
            g = self.0 .1.wait(g).unwrap();
        }
    }
}

#[derive(Clone, Copy, Debug, PartialEq, Eq)]
pub enum RecvMode {
    Recv,
    TryRecv,
    Blocking,
    Mixed,
}
#[derive(Clone, Copy, Debug, PartialEq, Eq)]
pub enum SendMode {
    Send,
    TrySend,
    Blocking,
}

/// bounded channel: every id exactly once, per-sender FIFO, never more than `cap` queued, all
/// receive paths give the slot back (otherwise the senders starve: deadlock)
pub fn mpsc_bounded(cap: usize, senders: usize, per: usize, rm: RecvMode, sm: SendMode) -> Body {
    Arc::new(move || {
        let (tx, mut rx) = mpsc::channel::<usize>(cap);
        let total = senders * per;
        let mut hs = vec![];
        let mut ths = vec![];
        for s in 0..senders {
            let tx = tx.clone();
            match sm {
                SendMode::Blocking => ths.push(shuttle::thread::spawn(move || {
                    for i in 0..per {
                        tx.blocking_send(s * 100 + i).expect("receiver alive");
                    }
                })),
                _ => hs.push(stokio::spawn(async move {
                    for i in 0..per {
                        let v = s * 100 + i;
                        if sm == SendMode::TrySend {
                            loop {
                                match tx.try_send(v) {
                                    Ok(()) => break,
                                    Err(mpsc::error::TrySendError::Full(_)) => stokio::task::yield_now().await,
                                    Err(mpsc::error::TrySendError::Closed(_)) => panic!("try_send: channel closed while the receiver is alive"),
                                }
                            }
                        } else {
                            tx.send(v).await.expect("receiver alive");
                        }
                    }
                })),
            }
        }
        drop(tx);
        let got: Arc<StdMutex<Vec<usize>>> = Arc::new(StdMutex::new(vec![]));
        let g2 = got.clone();
        let check_len = move |rx: &mpsc::Receiver<usize>| {
            assert!(rx.len() <= cap, "bounded channel of capacity {cap} holds {} messages", rx.len());
        };
        let recv_all = move || {
            let mut n = 0;
            let mut k = 0usize;
            while n < total {
                check_len(&rx);
                let mode = if rm == RecvMode::Mixed { [RecvMode::Recv, RecvMode::TryRecv, RecvMode::Blocking][k % 3] } else { rm };
                k += 1;
                let v = match mode {
                    RecvMode::Recv => block_on(rx.recv()),
                    RecvMode::Blocking => rx.blocking_recv(),
                    _ => loop {
                        match rx.try_recv() {
                            Ok(v) => break Some(v),
                            Err(mpsc::error::TryRecvError::Empty) => shuttle::thread::yield_now(),
                            Err(mpsc::error::TryRecvError::Disconnected) => break None,
                        }
                    },
                };
                match v {
                    Some(v) => {
                        g2.lock().unwrap().push(v);
                        n += 1;
                    }
                    None => panic!("receive reported the channel closed after {n} of {total} messages"),
                }
            }
            // everything drained and all senders gone: next receive reports closure
            let last = block_on(rx.recv());
            assert!(last.is_none(), "received {:?} after all {total} messages", last);
        };
        let r = shuttle::thread::spawn(recv_all);
        block_on(async move {
            for h in hs {
                h.await.expect("sender task");
            }
        });
        for t in ths {
            t.join().unwrap();
        }
        r.join().unwrap();
        let got = got.lock().unwrap().clone();
        let mut sorted = got.clone();
        sorted.sort();
        sorted.dedup();
        assert_eq!(sorted.len(), total, "a message was lost or duplicated: received {:?}", got);
        for s in 0..senders {
            let mine: Vec<usize> = got.iter().copied().filter(|v| v / 100 == s).collect();
            let mut o = mine.clone();
            o.sort();
            assert_eq!(mine, o, "messages of sender {s} received out of order: {:?}", got);
        }
    })
}

/// close(): buffered messages are still delivered, then None; sends fail after close
pub fn mpsc_close_drain(unbounded: bool) -> Body {
    Arc::new(move || {
        if unbounded {
            let (tx, mut rx) = mpsc::unbounded_channel::<usize>();
            let t = stokio::spawn(async move {
                let mut sent = 0;
                for i in 0..4 {
                    if tx.send(i).is_ok() {
                        sent += 1;
                    } else {
                        assert!(tx.is_closed());
                    }
                }
                sent
            });
            block_on(async move {
                let first = rx.recv().await;
                rx.close();
                let mut got = vec![];
                if let Some(v) = first {
                    got.push(v);
                }
                while let Some(v) = rx.recv().await {
                    got.push(v);
                }
                let sent = t.await.unwrap();
                // everything sent successfully before close must have been delivered, in order
                let want: Vec<usize> = (0..got.len()).collect();
                assert_eq!(got, want, "out of order or gap");
                assert!(got.len() <= sent, "received more than was sent");
                assert!(rx.recv().await.is_none());
            });
        } else {
            let (tx, mut rx) = mpsc::channel::<usize>(2);
            let t = stokio::spawn(async move {
                let mut sent = 0;
                for i in 0..4 {
                    if tx.send(i).await.is_ok() {
                        sent += 1;
                    } else {
                        assert!(tx.is_closed());
                        assert!(matches!(tx.try_send(9), Err(mpsc::error::TrySendError::Closed(_))));
                    }
                }
                sent
            });
            block_on(async move {
                let first = rx.recv().await;
                rx.close();
                let mut got = vec![];
                if let Some(v) = first {
                    got.push(v);
                }
                while let Some(v) = rx.recv().await {
                    got.push(v);
                }
                let sent = t.await.unwrap();
                let want: Vec<usize> = (0..got.len()).collect();
                assert_eq!(got, want, "out of order or gap");
                assert_eq!(got.len(), sent, "a message accepted before close was not delivered (sent {sent}, got {:?})", got);
            });
        }
    })
}

/// close() racing with sends, drained through try_recv first: `Disconnected` is final (nothing may be
/// received after it), and every send that returned Ok is delivered to a receiver that drains the
/// closed channel to the end
pub fn mpsc_close_try_drain(unbounded: bool, n: usize) -> Body {
    Arc::new(move || {
        use mpsc::error::TryRecvError;
        macro_rules! drain {
            ($rx:ident, $t:ident) => {{
                block_on(async move {
                    $rx.close();
                    let mut got: Vec<usize> = vec![];
                    let mut disconnected = false;
                    loop {
                        match $rx.try_recv() {
                            Ok(v) => got.push(v),
                            Err(TryRecvError::Disconnected) => {
                                disconnected = true;
                                break;
                            }
                            Err(TryRecvError::Empty) => {
                                // closed, but an accepted message is still on its way
                                while let Some(v) = $rx.recv().await {
                                    got.push(v);
                                }
                                break;
                            }
                        }
                    }
                    let sent: usize = $t.await.unwrap();
                    if disconnected {
                        let after = $rx.try_recv();
                        assert!(matches!(after, Err(TryRecvError::Disconnected)), "try_recv reported Disconnected but later returned {:?}", after);
                        assert!($rx.recv().await.is_none(), "recv produced a message after try_recv had reported Disconnected");
                    }
                    let want: Vec<usize> = (0..got.len()).collect();
                    assert_eq!(got, want, "out of order or gap");
                    assert_eq!(got.len(), sent, "{sent} sends returned Ok but the drained closed channel delivered {:?}", got);
                })
            }};
        }
        if unbounded {
            let (tx, mut rx) = mpsc::unbounded_channel::<usize>();
            let t = stokio::spawn(async move {
                let mut sent = 0;
                for i in 0..n {
                    if tx.send(i).is_ok() {
                        sent += 1;
                    } else {
                        break;
                    }
                }
                sent
            });
            drain!(rx, t);
        } else {
            let (tx, mut rx) = mpsc::channel::<usize>(2);
            let t = stokio::spawn(async move {
                let mut sent = 0;
                for i in 0..n {
                    if tx.send(i).await.is_ok() {
                        sent += 1;
                    } else {
                        break;
                    }
                }
                sent
            });
            drain!(rx, t);
        }
    })
}

/// receiver dropped: senders observe closure; blocked senders are released
pub fn mpsc_drop_receiver() -> Body {
    Arc::new(|| {
        let (tx, mut rx) = mpsc::channel::<usize>(1);
        let t = stokio::spawn(async move {
            let mut ok = 0;
            for i in 0..3 {
                match tx.send(i).await {
                    Ok(()) => ok += 1,
                    Err(_) => break,
                }
            }
            ok
        });
        block_on(async move {
            let _ = rx.recv().await;
            drop(rx);
            let ok = t.await.unwrap();
            assert!(ok <= 3);
        });
    })
}

pub fn oneshot_cases(which: usize) -> Body {
    Arc::new(move || match which {
        0 => {
            let (tx, rx) = oneshot::channel::<u32>();
            let t = stokio::spawn(async move { rx.await });
            tx.send(7).expect("receiver alive or result ignored");
            let r = block_on(t).unwrap();
            assert_eq!(r.ok(), Some(7));
        }
        1 => {
            let (tx, rx) = oneshot::channel::<u32>();
            let t = stokio::spawn(async move { rx.await });
            drop(tx);
            let r = block_on(t).unwrap();
            assert!(r.is_err(), "receiver got a value although the sender was dropped without sending");
        }
        2 => {
            let (tx, mut rx) = oneshot::channel::<u32>();
            let t = stokio::spawn(async move {
                let _ = tx.send(3);
            });
            // try_recv: Empty until sent, then the value exactly once
            let mut seen = None;
            for _ in 0..3 {
                match rx.try_recv() {
                    Ok(v) => {
                        assert!(seen.is_none(), "oneshot delivered twice");
                        seen = Some(v);
                    }
                    Err(oneshot::error::TryRecvError::Empty) => shuttle::thread::yield_now(),
                    Err(oneshot::error::TryRecvError::Closed) => break,
                }
            }
            block_on(t).unwrap();
            if seen.is_none() {
                // the value must still be there now that the sender task has finished
                match rx.try_recv() {
                    Ok(v) => assert_eq!(v, 3),
                    Err(e) => panic!("oneshot value lost: {e:?}"),
                }
            }
        }
        _ => {
            let (tx, rx) = oneshot::channel::<u32>();
            let t = stokio::spawn(async move { tx.send(1).is_err() });
            drop(rx);
            let _send_failed = block_on(t).unwrap();
        }
    })
}

/// watch: the receiver never goes backwards, always ends on the latest value, is told about the last change
pub fn watch_latest(n: usize, receivers: usize) -> Body {
    Arc::new(move || {
        let (tx, rx) = watch::channel(0usize);
        let mut hs = vec![];
        for _ in 0..receivers {
            let mut rx = rx.clone();
            hs.push(stokio::spawn(async move {
                let mut last = *rx.borrow_and_update();
                loop {
                    match rx.changed().await {
                        Ok(()) => {
                            let v = *rx.borrow_and_update();
                            assert!(v > last, "watch went from {last} to {v} after changed()");
                            last = v;
                        }
                        Err(_) => {
                            // sender gone: the latest value must be visible
                            let v = *rx.borrow();
                            assert!(v >= last);
                            return v;
                        }
                    }
                }
            }));
        }
        drop(rx);
        let s = stokio::spawn(async move {
            for i in 1..=n {
                tx.send(i).ok();
                if i % 2 == 0 {
                    stokio::task::yield_now().await;
                }
            }
        });
        block_on(async move {
            s.await.unwrap();
            for h in hs {
                let v = h.await.unwrap();
                assert_eq!(v, n, "a receiver finished on {v}, the latest value is {n}");
            }
        });
    })
}

pub fn notify_cases(which: usize) -> Body {
    Arc::new(move || {
        let n = Arc::new(Notify::new());
        match which {
            // a permit stored before anybody waits completes the next notified(); only one is stored
            0 => {
                n.notify_one();
                n.notify_one();
                let n1 = n.clone();
                let a = stokio::spawn(async move {
                    n1.notified().await;
                });
                block_on(a).expect("the stored permit must complete the first notified()");
                let gate = Gate::new();
                let (n2, g2) = (n.clone(), gate.clone());
                let b = stokio::spawn(async move {
                    let fut = n2.notified();
                    let mut fut = std::pin::pin!(fut);
                    let ready = fut.as_mut().enable();
                    assert!(!ready, "two notify_one calls stored two permits");
                    g2.bump();
                    fut.await;
                });
                gate.wait_for(1);
                for _ in 0..3 {
                    shuttle::thread::yield_now();
                }
                assert!(!b.is_finished(), "a second notified() completed although only one permit can be stored");
                n.notify_one();
                block_on(b).unwrap();
            }
            // notify_one with two registered waiters wakes exactly one; the second needs another
            1 => {
                let done = Arc::new(AtomicUsize::new(0));
                let reg = Gate::new();
                let mut hs = vec![];
                for _ in 0..2 {
                    let (n1, d1, r1) = (n.clone(), done.clone(), reg.clone());
                    hs.push(stokio::spawn(async move {
                        let fut = n1.notified();
                        let mut fut = std::pin::pin!(fut);
                        fut.as_mut().enable();
                        r1.bump();
                        fut.await;
                        d1.fetch_add(1, Ordering::SeqCst);
                    }));
                }
                reg.wait_for(2);
                n.notify_one();
                for _ in 0..6 {
                    shuttle::thread::yield_now();
                }
                assert!(done.load(Ordering::SeqCst) <= 1, "one notify_one released two waiters");
                n.notify_one();
                block_on(async move {
                    for h in hs {
                        h.await.unwrap();
                    }
                });
                assert_eq!(done.load(Ordering::SeqCst), 2);
            }
            // notify_waiters releases all registered waiters, stores nothing
            2 => {
                let reg = Gate::new();
                let mut hs = vec![];
                for _ in 0..3 {
                    let (n1, r1) = (n.clone(), reg.clone());
                    hs.push(stokio::spawn(async move {
                        let fut = n1.notified();
                        let mut fut = std::pin::pin!(fut);
                        fut.as_mut().enable();
                        r1.bump();
                        fut.await;
                    }));
                }
                reg.wait_for(3);
                n.notify_waiters();
                block_on(async move {
                    for h in hs {
                        h.await.unwrap();
                    }
                });
                // nothing stored: a later waiter must wait for a new notification
                let n2 = n.clone();
                let late = stokio::spawn(async move {
                    n2.notified().await;
                });
                for _ in 0..4 {
                    shuttle::thread::yield_now();
                }
                assert!(!late.is_finished(), "notify_waiters stored a permit");
                n.notify_one();
                block_on(late).unwrap();
            }
            // waiters that are cancelled (aborted, or gave up) while notify_waiters is broadcasting:
            // legal in tokio; nobody may panic, everybody who stays is released
            4 | 5 => {
                let reg = Gate::new();
                let mut hs = vec![];
                for i in 0..3 {
                    let (n1, r1) = (n.clone(), reg.clone());
                    hs.push(stokio::spawn(async move {
                        let fut = n1.notified();
                        let mut fut = std::pin::pin!(fut);
                        fut.as_mut().enable();
                        r1.bump();
                        if which == 5 && i == 1 {
                            // gives up after a couple of steps without completing the future
                            for _ in 0..2 {
                                stokio::task::yield_now().await;
                            }
                        } else {
                            fut.await;
                        }
                    }));
                }
                reg.wait_for(3);
                let victim = hs.remove(2);
                let canceller = if which == 4 {
                    Some(shuttle::thread::spawn(move || {
                        victim.abort();
                        victim
                    }))
                } else {
                    hs.push(victim);
                    None
                };
                n.notify_waiters();
                block_on(async move {
                    for h in hs {
                        h.await.unwrap();
                    }
                });
                if let Some(c) = canceller {
                    let v = c.join().unwrap();
                    // aborted before or after it was released: either is fine
                    let _ = block_on(v);
                }
            }
            // a waiter that was notified by notify_one and is then dropped passes the notification on
            _ => {
                let reg = Gate::new();
                let (n1, r1) = (n.clone(), reg.clone());
                let quitter = stokio::spawn(async move {
                    let fut = n1.notified();
                    let mut fut = std::pin::pin!(fut);
                    fut.as_mut().enable();
                    r1.bump();
                    // give up after a few steps without ever completing the future
                    for _ in 0..3 {
                        stokio::task::yield_now().await;
                    }
                });
                let (n2, r2) = (n.clone(), reg.clone());
                let stayer = stokio::spawn(async move {
                    let fut = n2.notified();
                    let mut fut = std::pin::pin!(fut);
                    fut.as_mut().enable();
                    r2.bump();
                    fut.await;
                });
                reg.wait_for(2);
                // exactly one notification for two waiters, one of which gives up
                n.notify_one();
                block_on(async move {
                    quitter.await.unwrap();
                    // the notification must reach the waiter that stays (directly or forwarded)
                    stayer.await.unwrap();
                });
            }
        }
    })
}

/// Mutex: exclusion and FIFO hand-off; Semaphore: conservation, acquire_many FIFO, forget/add, close
pub fn lock_cases(which: usize) -> Body {
    Arc::new(move || match which {
        0 => {
            let m = Arc::new(Mutex::new(0usize));
            let inside = Arc::new(AtomicUsize::new(0));
            let mut hs = vec![];
            for _ in 0..3 {
                let (m, inside) = (m.clone(), inside.clone());
                hs.push(stokio::spawn(async move {
                    for _ in 0..2 {
                        let mut g = m.lock().await;
                        assert_eq!(inside.fetch_add(1, Ordering::SeqCst), 0, "two tasks inside the tokio Mutex");
                        *g += 1;
                        stokio::task::yield_now().await;
                        inside.fetch_sub(1, Ordering::SeqCst);
                        drop(g);
                    }
                }));
            }
            block_on(async move {
                for h in hs {
                    h.await.unwrap();
                }
                assert_eq!(*m.lock().await, 6);
                assert!(m.try_lock().is_ok());
            });
        }
        1 => {
            // FIFO: waiters are served in the order in which they started waiting
            let m = Arc::new(Mutex::new(()));
            let order = Arc::new(StdMutex::new(vec![]));
            let queued = Gate::new();
            let g = block_on(m.lock());
            let mut hs = vec![];
            for i in 0..3usize {
                let (m, order, queued) = (m.clone(), order.clone(), queued.clone());
                hs.push(stokio::spawn(async move {
                    // wait for our turn to enqueue
                    queued.wait_for(i);
                    let fut = m.lock();
                    let mut fut = std::pin::pin!(fut);
                    // first poll enqueues
                    let early = std::future::poll_fn(|cx| std::task::Poll::Ready(std::future::Future::poll(fut.as_mut(), cx).is_ready())).await;
                    assert!(!early, "lock acquired while main holds it");
                    queued.bump();
                    let _g = fut.await;
                    order.lock().unwrap().push(i);
                }));
            }
            queued.wait_for(3);
            drop(g);
            block_on(async move {
                for h in hs {
                    h.await.unwrap();
                }
            });
            assert_eq!(*order.lock().unwrap(), vec![0, 1, 2], "tokio Mutex is FIFO-fair");
        }
        2 => {
            let s = Arc::new(Semaphore::new(3));
            let held = Arc::new(AtomicUsize::new(0));
            let mut hs = vec![];
            for k in 1..=3u32 {
                let (s, held) = (s.clone(), held.clone());
                hs.push(stokio::spawn(async move {
                    let p = s.acquire_many(k).await.expect("open");
                    let now = held.fetch_add(k as usize, Ordering::SeqCst) + k as usize;
                    assert!(now <= 3, "{now} permits held out of 3");
                    stokio::task::yield_now().await;
                    held.fetch_sub(k as usize, Ordering::SeqCst);
                    drop(p);
                }));
            }
            block_on(async move {
                for h in hs {
                    h.await.unwrap();
                }
            });
            assert_eq!(s.available_permits(), 3, "permits not conserved");
            let p = s.try_acquire_many(2).unwrap();
            p.forget();
            assert_eq!(s.available_permits(), 1);
            s.add_permits(2);
            assert_eq!(s.available_permits(), 3);
            s.close();
            assert!(s.try_acquire().is_err());
            assert!(block_on(s.acquire()).is_err());
        }
        3 => {
            // acquire_many FIFO: a big request queued first is not overtaken by a small one
            let s = Arc::new(Semaphore::new(1));
            let order = Arc::new(StdMutex::new(vec![]));
            let queued = Gate::new();
            let mut hs = vec![];
            for (i, k) in [(0usize, 2u32), (1, 1)] {
                let (s, order, queued) = (s.clone(), order.clone(), queued.clone());
                hs.push(stokio::spawn(async move {
                    queued.wait_for(i);
                    let fut = s.acquire_many(k);
                    let mut fut = std::pin::pin!(fut);
                    let early = std::future::poll_fn(|cx| std::task::Poll::Ready(std::future::Future::poll(fut.as_mut(), cx).is_ready())).await;
                    queued.bump();
                    if !early {
                        let _p = fut.await.unwrap();
                        order.lock().unwrap().push(i);
                    } else {
                        order.lock().unwrap().push(100 + i);
                    }
                }));
            }
            queued.wait_for(2);
            // the small request (1 permit available!) must still be waiting behind the big one
            assert!(order.lock().unwrap().is_empty(), "a later request overtook the queued head: {:?}", order.lock().unwrap());
            s.add_permits(1);
            block_on(async move {
                for h in hs {
                    h.await.unwrap();
                }
            });
            assert_eq!(order.lock().unwrap()[0], 0, "FIFO order violated: {:?}", order.lock().unwrap());
        }
        _ => {
            // RwLock: writers exclude everyone, readers share
            let l = Arc::new(RwLock::new(0usize));
            let writers = Arc::new(AtomicUsize::new(0));
            let readers = Arc::new(AtomicUsize::new(0));
            let mut hs = vec![];
            for i in 0..4usize {
                let (l, writers, readers) = (l.clone(), writers.clone(), readers.clone());
                hs.push(stokio::spawn(async move {
                    if i % 2 == 0 {
                        let mut g = l.write().await;
                        assert_eq!(writers.fetch_add(1, Ordering::SeqCst), 0, "two writers");
                        assert_eq!(readers.load(Ordering::SeqCst), 0, "writer with readers");
                        *g += 1;
                        stokio::task::yield_now().await;
                        writers.fetch_sub(1, Ordering::SeqCst);
                    } else {
                        let g = l.read().await;
                        assert_eq!(writers.load(Ordering::SeqCst), 0, "reader with writer");
                        readers.fetch_add(1, Ordering::SeqCst);
                        let _ = *g;
                        stokio::task::yield_now().await;
                        readers.fetch_sub(1, Ordering::SeqCst);
                    }
                }));
            }
            block_on(async move {
                for h in hs {
                    h.await.unwrap();
                }
                assert_eq!(*l.read().await, 2);
            });
        }
    })
}

/// task: JoinHandle / abort / JoinSet / spawn_blocking / timeout / sleep
pub fn task_cases(which: usize) -> Body {
    Arc::new(move || match which {
        0 => {
            let mut js = stokio::task::JoinSet::new();
            for i in 0..3usize {
                js.spawn(async move {
                    if i == 1 {
                        stokio::task::yield_now().await;
                    }
                    i
                });
            }
            let mut got = vec![];
            block_on(async {
                while let Some(r) = js.join_next().await {
                    got.push(r.expect("no task was aborted"));
                }
            });
            got.sort();
            assert_eq!(got, vec![0, 1, 2], "JoinSet must return every task's result exactly once");
        }
        1 => {
            let mut js = stokio::task::JoinSet::new();
            let n = Arc::new(Notify::new());
            for _ in 0..2 {
                let n = n.clone();
                js.spawn(async move {
                    n.notified().await;
                    1usize
                });
            }
            js.spawn(async move { 2usize });
            js.abort_all();
            let mut done = 0;
            let mut cancelled = 0;
            block_on(async {
                while let Some(r) = js.join_next().await {
                    match r {
                        Ok(_) => done += 1,
                        Err(e) => {
                            assert!(e.is_cancelled());
                            cancelled += 1;
                        }
                    }
                }
            });
            assert_eq!(done + cancelled, 3, "JoinSet lost a task");
            assert!(cancelled >= 2, "tasks pending forever were not cancelled by abort_all");
        }
        2 => {
            let h = stokio::task::spawn_blocking(|| 5usize);
            let t = stokio::spawn(async move { stokio::time::timeout(std::time::Duration::from_secs(1), async { 6usize }).await });
            block_on(async move {
                assert_eq!(h.await.unwrap(), 5);
                assert_eq!(t.await.unwrap().ok(), Some(6), "timeout fired although no trigger was installed");
                stokio::time::sleep(std::time::Duration::from_millis(5)).await;
                let mut iv = stokio::time::interval(std::time::Duration::from_millis(1));
                iv.tick().await;
                iv.tick().await;
            });
        }
        _ => {
            let n = Arc::new(Notify::new());
            let n2 = n.clone();
            let h = stokio::spawn(async move {
                n2.notified().await;
                1usize
            });
            let ah = h.abort_handle();
            h.abort();
            ah.abort();
            let r = block_on(h);
            assert!(r.is_err() && r.err().unwrap().is_cancelled(), "a task pending forever was aborted but did not report Cancelled");
        }
    })
}

pub fn all() -> Vec<(String, Body)> {
    let mut v: Vec<(String, Body)> = vec![];
    for rm in [RecvMode::Recv, RecvMode::TryRecv, RecvMode::Blocking, RecvMode::Mixed] {
        for sm in [SendMode::Send, SendMode::TrySend, SendMode::Blocking] {
            for (cap, senders, per) in [(1usize, 1usize, 2usize), (1, 2, 2), (2, 2, 2)] {
                v.push((format!("mpsc-bounded cap={cap} senders={senders}x{per} recv={rm:?} send={sm:?}"), mpsc_bounded(cap, senders, per, rm, sm)));
            }
        }
    }
    v.push(("mpsc-close-drain unbounded".into(), mpsc_close_drain(true)));
    v.push(("mpsc-close-drain bounded".into(), mpsc_close_drain(false)));
    v.push(("mpsc-drop-receiver".into(), mpsc_drop_receiver()));
    for n in [1usize, 2] {
        v.push((format!("mpsc-close-drain-first unbounded n={n}"), mpsc_close_try_drain(true, n)));
        v.push((format!("mpsc-close-drain-first bounded n={n}"), mpsc_close_try_drain(false, n)));
    }
    for i in 0..4 {
        v.push((format!("oneshot-{i}"), oneshot_cases(i)));
    }
    v.push(("watch n=3 r=1".into(), watch_latest(3, 1)));
    v.push(("watch n=4 r=2".into(), watch_latest(4, 2)));
    for i in [0usize, 1, 2, 3, 4, 5] {
        v.push((format!("notify-{i}"), notify_cases(if i == 3 { 9 } else { i })));
    }
    for i in 0..5 {
        v.push((format!("locks-{i}"), lock_cases(i)));
    }
    for i in 0..4 {
        v.push((format!("task-{i}"), task_cases(i)));
    }
    v
}
