//! Differential scripts: the same sequence of hand-polled operations is run against real tokio
//! (plain thread, no runtime) and against the Shuttle replacement (inside a one-task Shuttle
//! execution); the per-step results must agree for the deterministic core of each primitive.
use std::cell::RefCell;
use std::future::Future;
use std::pin::Pin;
use std::rc::Rc;
use std::sync::Arc;
use std::task::{Context, Poll, Wake, Waker};
use vcore::util::Rng;

#[derive(Clone, Debug, PartialEq)]
pub enum Prim {
    MpscBounded(usize),
    MpscUnbounded,
    Semaphore(usize),
    Mutex,
    RwLock,
    Notify,
    Oneshot,
    Watch,
}

#[derive(Clone, Debug, PartialEq)]
pub enum Op {
    /// start an asynchronous operation in a slot (not polled yet)
    Start(usize, AOp),
    Poll(usize),
    Cancel(usize),
    Now(NOp),
}

#[derive(Clone, Debug, PartialEq)]
pub enum AOp {
    Send(u32),
    Recv,
    Acquire(u32),
    Lock,
    Read,
    Write,
    Notified,
    OneshotRecv,
    Changed(usize),
}

#[derive(Clone, Debug, PartialEq)]
pub enum NOp {
    TrySend(u32),
    UnboundedSend(u32),
    TryRecv,
    CloseRx,
    DropTx,
    DropRx,
    Info,
    TryAcquire(u32),
    ReleaseOldest,
    AddPermits(usize),
    CloseSem,
    TryLock,
    UnlockOldest,
    TryRead,
    TryWrite,
    UnlockOldestRead,
    UnlockWrite,
    Downgrade,
    NotifyOne,
    NotifyWaiters,
    OneshotSend(u32),
    OneshotTryRecv,
    WatchSend(u32),
    BorrowUpdate(usize),
    HasChanged(usize),
    CloneWatchRx,
}

struct Noop;
impl Wake for Noop {
    fn wake(self: Arc<Self>) {}
}

type Fut = Pin<Box<dyn Future<Output = String>>>;

/// puts a taken value back into its cell when the future holding it finishes or is dropped
struct Back<T> {
    cell: Rc<RefCell<Option<T>>>,
    val: Option<T>,
}
impl<T> Drop for Back<T> {
    fn drop(&mut self) {
        if let Some(v) = self.val.take() {
            *self.cell.borrow_mut() = Some(v);
        }
    }
}

macro_rules! make_interp {
    ($name:ident, $t:ident) => {
        pub fn $name(prim: &Prim, script: &[Op]) -> Vec<String> {
            use $t::sync::{mpsc, oneshot, watch, Mutex, Notify, RwLock, Semaphore};
            let waker: Waker = Arc::new(Noop).into();
            let mut out: Vec<String> = vec![];
            let mut slots: Vec<Option<Fut>> = (0..4).map(|_| None).collect();
            // state of every primitive (only the one under test is used)
            let (btx, brx) = match prim {
                Prim::MpscBounded(k) => {
                    let (t, r) = mpsc::channel::<u32>(*k);
                    (Some(t), Some(r))
                }
                _ => (None, None),
            };
            let btx = Rc::new(RefCell::new(btx));
            let brx = Rc::new(RefCell::new(brx));
            let (utx, urx) = match prim {
                Prim::MpscUnbounded => {
                    let (t, r) = mpsc::unbounded_channel::<u32>();
                    (Some(t), Some(r))
                }
                _ => (None, None),
            };
            let utx = Rc::new(RefCell::new(utx));
            let urx = Rc::new(RefCell::new(urx));
            let sem = Arc::new(Semaphore::new(if let Prim::Semaphore(k) = prim { *k } else { 0 }));
            let permits: Rc<RefCell<Vec<$t::sync::OwnedSemaphorePermit>>> = Rc::new(RefCell::new(vec![]));
            let mtx = Arc::new(Mutex::new(0u32));
            let guards: Rc<RefCell<Vec<$t::sync::OwnedMutexGuard<u32>>>> = Rc::new(RefCell::new(vec![]));
            let rwl = Arc::new(RwLock::new(0u32));
            let rguards: Rc<RefCell<Vec<$t::sync::OwnedRwLockReadGuard<u32>>>> = Rc::new(RefCell::new(vec![]));
            let wguards: Rc<RefCell<Vec<$t::sync::OwnedRwLockWriteGuard<u32>>>> = Rc::new(RefCell::new(vec![]));
            let notify = Arc::new(Notify::new());
            let (otx, orx) = oneshot::channel::<u32>();
            let otx = Rc::new(RefCell::new(Some(otx)));
            let orx = Rc::new(RefCell::new(Some(orx)));
            let (wtx, wrx) = watch::channel(0u32);
            let wtx = Rc::new(RefCell::new(Some(wtx)));
            let wrxs: Rc<RefCell<Vec<Option<watch::Receiver<u32>>>>> = Rc::new(RefCell::new(vec![Some(wrx)]));

            for op in script {
                let res: String = match op {
                    Op::Start(s, a) => {
                        let fut: Option<Fut> = match a {
                            AOp::Send(v) => btx.borrow().as_ref().map(|t| {
                                let t = t.clone();
                                let v = *v;
                                Box::pin(async move { format!("send:{}", t.send(v).await.is_ok()) }) as Fut
                            }),
                            AOp::Recv => {
                                if matches!(prim, Prim::MpscUnbounded) {
                                    urx.borrow_mut().take().map(|r| {
                                        let mut b = Back { cell: urx.clone(), val: Some(r) };
                                        Box::pin(async move { format!("recv:{:?}", b.val.as_mut().unwrap().recv().await) }) as Fut
                                    })
                                } else {
                                    brx.borrow_mut().take().map(|r| {
                                        let mut b = Back { cell: brx.clone(), val: Some(r) };
                                        Box::pin(async move { format!("recv:{:?}", b.val.as_mut().unwrap().recv().await) }) as Fut
                                    })
                                }
                            }
                            AOp::Acquire(n) => {
                                let (sem, permits, n) = (sem.clone(), permits.clone(), *n);
                                Some(Box::pin(async move {
                                    match sem.acquire_many_owned(n).await {
                                        Ok(p) => {
                                            permits.borrow_mut().push(p);
                                            "acquire:ok".to_string()
                                        }
                                        Err(_) => "acquire:closed".to_string(),
                                    }
                                }) as Fut)
                            }
                            AOp::Lock => {
                                let (m, guards) = (mtx.clone(), guards.clone());
                                Some(Box::pin(async move {
                                    let g = m.lock_owned().await;
                                    guards.borrow_mut().push(g);
                                    "lock:ok".to_string()
                                }) as Fut)
                            }
                            AOp::Read => {
                                let (l, rg) = (rwl.clone(), rguards.clone());
                                Some(Box::pin(async move {
                                    let g = l.read_owned().await;
                                    let v = *g;
                                    rg.borrow_mut().push(g);
                                    format!("read:{v}")
                                }) as Fut)
                            }
                            AOp::Write => {
                                let (l, wg) = (rwl.clone(), wguards.clone());
                                Some(Box::pin(async move {
                                    let mut g = l.write_owned().await;
                                    *g += 1;
                                    let v = *g;
                                    wg.borrow_mut().push(g);
                                    format!("write:{v}")
                                }) as Fut)
                            }
                            AOp::Notified => {
                                let n = notify.clone();
                                Some(Box::pin(async move {
                                    n.notified().await;
                                    "notified".to_string()
                                }) as Fut)
                            }
                            AOp::OneshotRecv => orx.borrow_mut().take().map(|r| Box::pin(async move { format!("oneshot:{:?}", r.await.ok()) }) as Fut),
                            AOp::Changed(i) => {
                                let taken = wrxs.borrow_mut().get_mut(*i).and_then(|x| x.take());
                                taken.map(|r| {
                                    let (cell, i) = (wrxs.clone(), *i);
                                    struct PutBack<R> {
                                        cell: Rc<RefCell<Vec<Option<R>>>>,
                                        i: usize,
                                        val: Option<R>,
                                    }
                                    impl<R> Drop for PutBack<R> {
                                        fn drop(&mut self) {
                                            if let Some(v) = self.val.take() {
                                                self.cell.borrow_mut()[self.i] = Some(v);
                                            }
                                        }
                                    }
                                    let mut b = PutBack { cell, i, val: Some(r) };
                                    Box::pin(async move { format!("changed:{}", b.val.as_mut().unwrap().changed().await.is_ok()) }) as Fut
                                })
                            }
                        };
                        match fut {
                            Some(f) => {
                                slots[*s] = Some(f);
                                "started".into()
                            }
                            None => "unavailable".into(),
                        }
                    }
                    Op::Poll(s) => match slots[*s].as_mut() {
                        Some(f) => {
                            let mut cx = Context::from_waker(&waker);
                            match f.as_mut().poll(&mut cx) {
                                Poll::Ready(r) => {
                                    slots[*s] = None;
                                    format!("ready:{r}")
                                }
                                Poll::Pending => "pending".into(),
                            }
                        }
                        None => "empty-slot".into(),
                    },
                    Op::Cancel(s) => {
                        slots[*s] = None;
                        "cancelled".into()
                    }
                    Op::Now(n) => match n {
                        NOp::TrySend(v) => match btx.borrow().as_ref() {
                            Some(t) => match t.try_send(*v) {
                                Ok(()) => "try_send:ok".into(),
                                Err(mpsc::error::TrySendError::Full(_)) => "try_send:full".into(),
                                Err(mpsc::error::TrySendError::Closed(_)) => "try_send:closed".into(),
                            },
                            None => "no-tx".into(),
                        },
                        NOp::UnboundedSend(v) => match utx.borrow().as_ref() {
                            Some(t) => format!("usend:{}", t.send(*v).is_ok()),
                            None => "no-tx".into(),
                        },
                        NOp::TryRecv => {
                            let r = if matches!(prim, Prim::MpscUnbounded) {
                                urx.borrow_mut().as_mut().map(|r| r.try_recv())
                            } else {
                                brx.borrow_mut().as_mut().map(|r| r.try_recv())
                            };
                            match r {
                                Some(Ok(v)) => format!("try_recv:{v}"),
                                Some(Err(mpsc::error::TryRecvError::Empty)) => "try_recv:empty".into(),
                                Some(Err(mpsc::error::TryRecvError::Disconnected)) => "try_recv:disconnected".into(),
                                None => "no-rx".into(),
                            }
                        }
                        NOp::CloseRx => {
                            if let Some(r) = urx.borrow_mut().as_mut() {
                                r.close();
                            }
                            if let Some(r) = brx.borrow_mut().as_mut() {
                                r.close();
                            }
                            "closed".into()
                        }
                        NOp::DropTx => {
                            btx.borrow_mut().take();
                            utx.borrow_mut().take();
                            otx.borrow_mut().take();
                            wtx.borrow_mut().take();
                            "tx-dropped".into()
                        }
                        NOp::DropRx => {
                            brx.borrow_mut().take();
                            urx.borrow_mut().take();
                            orx.borrow_mut().take();
                            "rx-dropped".into()
                        }
                        NOp::Info => match prim {
                            // the capacity reported for an already closed channel is not part of any
                            // documented contract (tokio keeps the free slots, the replacement reports 0)
                            Prim::MpscBounded(_) => format!(
                                "cap:{:?} closed:{:?} len:{:?}",
                                btx.borrow().as_ref().and_then(|t| if t.is_closed() { None } else { Some(t.capacity()) }),
                                btx.borrow().as_ref().map(|t| t.is_closed()),
                                brx.borrow().as_ref().map(|r| r.len())
                            ),
                            Prim::MpscUnbounded => format!("closed:{:?} len:{:?}", utx.borrow().as_ref().map(|t| t.is_closed()), urx.borrow().as_ref().map(|r| r.len())),
                            // available_permits() is not compared: tokio hands free permits to the queued
                            // head request piecemeal (and reports them as taken), the replacement only when
                            // the whole request fits; both are FIFO and conserve permits
                            Prim::Semaphore(_) => format!("closed:{}", sem.is_closed()),
                            _ => "info".into(),
                        },
                        NOp::TryAcquire(k) => match sem.clone().try_acquire_many_owned(*k) {
                            Ok(p) => {
                                permits.borrow_mut().push(p);
                                "try_acquire:ok".into()
                            }
                            Err($t::sync::TryAcquireError::NoPermits) => "try_acquire:none".into(),
                            Err($t::sync::TryAcquireError::Closed) => "try_acquire:closed".into(),
                        },
                        NOp::ReleaseOldest => {
                            let mut p = permits.borrow_mut();
                            if p.is_empty() {
                                "nothing-held".into()
                            } else {
                                let x = p.remove(0);
                                drop(p);
                                drop(x);
                                "released".into()
                            }
                        }
                        NOp::AddPermits(k) => {
                            sem.add_permits(*k);
                            "added".into()
                        }
                        NOp::CloseSem => {
                            sem.close();
                            "sem-closed".into()
                        }
                        NOp::TryLock => match mtx.clone().try_lock_owned() {
                            Ok(g) => {
                                guards.borrow_mut().push(g);
                                "try_lock:ok".into()
                            }
                            Err(_) => "try_lock:busy".into(),
                        },
                        NOp::UnlockOldest => {
                            let mut g = guards.borrow_mut();
                            if g.is_empty() {
                                "nothing-held".into()
                            } else {
                                let x = g.remove(0);
                                drop(g);
                                drop(x);
                                "unlocked".into()
                            }
                        }
                        NOp::TryRead => match rwl.clone().try_read_owned() {
                            Ok(g) => {
                                let v = *g;
                                rguards.borrow_mut().push(g);
                                format!("try_read:{v}")
                            }
                            Err(_) => "try_read:busy".into(),
                        },
                        NOp::TryWrite => match rwl.clone().try_write_owned() {
                            Ok(mut g) => {
                                *g += 1;
                                let v = *g;
                                wguards.borrow_mut().push(g);
                                format!("try_write:{v}")
                            }
                            Err(_) => "try_write:busy".into(),
                        },
                        NOp::UnlockOldestRead => {
                            let mut g = rguards.borrow_mut();
                            if g.is_empty() {
                                "no-read-guard".into()
                            } else {
                                let x = g.remove(0);
                                drop(g);
                                drop(x);
                                "read-unlocked".into()
                            }
                        }
                        NOp::UnlockWrite => {
                            let x = wguards.borrow_mut().pop();
                            match x {
                                Some(g) => {
                                    drop(g);
                                    "write-unlocked".into()
                                }
                                None => "no-write-guard".into(),
                            }
                        }
                        NOp::Downgrade => {
                            let x = wguards.borrow_mut().pop();
                            match x {
                                Some(g) => {
                                    let r = g.downgrade();
                                    let v = *r;
                                    rguards.borrow_mut().push(r);
                                    format!("downgraded:{v}")
                                }
                                None => "no-write-guard".into(),
                            }
                        }
                        NOp::NotifyOne => {
                            notify.notify_one();
                            "notify_one".into()
                        }
                        NOp::NotifyWaiters => {
                            notify.notify_waiters();
                            "notify_waiters".into()
                        }
                        NOp::OneshotSend(v) => match otx.borrow_mut().take() {
                            Some(t) => format!("oneshot_send:{}", t.send(*v).is_ok()),
                            None => "no-tx".into(),
                        },
                        NOp::OneshotTryRecv => match orx.borrow_mut().as_mut() {
                            Some(r) => match r.try_recv() {
                                Ok(v) => format!("oneshot_try:{v}"),
                                Err(oneshot::error::TryRecvError::Empty) => "oneshot_try:empty".into(),
                                Err(oneshot::error::TryRecvError::Closed) => "oneshot_try:closed".into(),
                            },
                            None => "no-rx".into(),
                        },
                        NOp::WatchSend(v) => match wtx.borrow().as_ref() {
                            Some(t) => format!("watch_send:{}", t.send(*v).is_ok()),
                            None => "no-tx".into(),
                        },
                        NOp::BorrowUpdate(i) => match wrxs.borrow_mut().get_mut(*i).and_then(|x| x.as_mut()) {
                            Some(r) => format!("borrow:{}", *r.borrow_and_update()),
                            None => "no-rx".into(),
                        },
                        NOp::HasChanged(i) => match wrxs.borrow().get(*i).and_then(|x| x.as_ref()) {
                            Some(r) => format!("has_changed:{:?}", r.has_changed().ok()),
                            None => "no-rx".into(),
                        },
                        NOp::CloneWatchRx => {
                            let c = wrxs.borrow().iter().flatten().next().cloned();
                            match c {
                                Some(r) if wrxs.borrow().len() < 3 => {
                                    wrxs.borrow_mut().push(Some(r));
                                    "cloned".into()
                                }
                                _ => "not-cloned".into(),
                            }
                        }
                    },
                };
                out.push(res);
            }
            // tear down in a fixed order: pending futures first
            for s in slots.iter_mut() {
                *s = None;
            }
            out
        }
    };
}

make_interp!(run_real, rtokio);
make_interp!(run_shuttle, stokio);

pub fn gen_script(rng: &mut Rng, prim: &Prim, len: usize) -> Vec<Op> {
    let mut v = vec![];
    let mut next = 1u32;
    for _ in 0..len {
        let s = rng.below(3);
        let r = rng.below(12);
        let op = match prim {
            Prim::MpscBounded(_) => match r {
                0 | 1 => {
                    next += 1;
                    Op::Start(s, AOp::Send(next))
                }
                2 => Op::Start(s, AOp::Recv),
                3 | 4 | 5 => Op::Poll(s),
                6 => Op::Cancel(s),
                7 => {
                    next += 1;
                    Op::Now(NOp::TrySend(next))
                }
                8 | 9 => Op::Now(NOp::TryRecv),
                10 => Op::Now(NOp::Info),
                _ => match rng.below(6) {
                    0 => Op::Now(NOp::CloseRx),
                    1 => Op::Now(NOp::DropTx),
                    2 => Op::Now(NOp::DropRx),
                    _ => Op::Now(NOp::Info),
                },
            },
            Prim::MpscUnbounded => match r {
                0 | 1 | 2 => {
                    next += 1;
                    Op::Now(NOp::UnboundedSend(next))
                }
                3 => Op::Start(s, AOp::Recv),
                4 | 5 => Op::Poll(s),
                6 => Op::Cancel(s),
                7 | 8 => Op::Now(NOp::TryRecv),
                9 | 10 => Op::Now(NOp::Info),
                _ => match rng.below(6) {
                    0 => Op::Now(NOp::CloseRx),
                    1 => Op::Now(NOp::DropTx),
                    2 => Op::Now(NOp::DropRx),
                    _ => Op::Now(NOp::Info),
                },
            },
            Prim::Semaphore(_) => match r {
                0 | 1 | 2 => Op::Start(s, AOp::Acquire(if rng.chance(1, 8) { 0 } else { rng.range(1, 3) } as u32)),
                3 | 4 | 5 => Op::Poll(s),
                6 => Op::Cancel(s),
                7 => Op::Now(NOp::TryAcquire(if rng.chance(1, 8) { 0 } else { rng.range(1, 2) } as u32)),
                8 => Op::Now(NOp::ReleaseOldest),
                9 => Op::Now(NOp::AddPermits(rng.range(1, 2))),
                10 => Op::Now(NOp::Info),
                _ => {
                    if rng.chance(1, 4) {
                        Op::Now(NOp::CloseSem)
                    } else {
                        Op::Now(NOp::ReleaseOldest)
                    }
                }
            },
            Prim::Mutex => match r {
                0 | 1 | 2 => Op::Start(s, AOp::Lock),
                3 | 4 | 5 | 6 => Op::Poll(s),
                7 => Op::Cancel(s),
                8 => Op::Now(NOp::TryLock),
                _ => Op::Now(NOp::UnlockOldest),
            },
            Prim::RwLock => match r {
                0 | 1 => Op::Start(s, AOp::Read),
                2 => Op::Start(s, AOp::Write),
                3 | 4 | 5 => Op::Poll(s),
                6 => Op::Cancel(s),
                7 => Op::Now(NOp::TryRead),
                8 => Op::Now(NOp::TryWrite),
                9 => Op::Now(NOp::UnlockOldestRead),
                10 => Op::Now(NOp::UnlockWrite),
                _ => {
                    if rng.chance(1, 2) {
                        Op::Now(NOp::Downgrade)
                    } else {
                        Op::Now(NOp::UnlockOldestRead)
                    }
                }
            },
            Prim::Notify => match r {
                0 | 1 | 2 => Op::Start(s, AOp::Notified),
                3 | 4 | 5 | 6 => Op::Poll(s),
                7 => Op::Cancel(s),
                8 | 9 | 10 => Op::Now(NOp::NotifyOne),
                _ => Op::Now(NOp::NotifyWaiters),
            },
            Prim::Oneshot => match r {
                0 | 1 => Op::Start(s, AOp::OneshotRecv),
                2 | 3 | 4 => Op::Poll(s),
                5 => Op::Cancel(s),
                6 | 7 => Op::Now(NOp::OneshotSend(7)),
                8 | 9 => Op::Now(NOp::OneshotTryRecv),
                10 => Op::Now(NOp::DropTx),
                _ => Op::Now(NOp::DropRx),
            },
            Prim::Watch => match r {
                0 | 1 => {
                    next += 1;
                    Op::Now(NOp::WatchSend(next))
                }
                2 | 3 => Op::Start(s, AOp::Changed(rng.below(2))),
                4 | 5 | 6 => Op::Poll(s),
                7 => Op::Cancel(s),
                8 => Op::Now(NOp::BorrowUpdate(rng.below(2))),
                9 => Op::Now(NOp::HasChanged(rng.below(2))),
                10 => Op::Now(NOp::CloneWatchRx),
                _ => {
                    if rng.chance(1, 3) {
                        Op::Now(NOp::DropTx)
                    } else {
                        Op::Now(NOp::HasChanged(0))
                    }
                }
            },
        };
        v.push(op);
    }
    v
}
