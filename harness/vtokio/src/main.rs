//! C19: tokio-compatible primitives keep tokio's documented contracts.
mod diff;
mod scen;

use serde_json::json;
use std::cell::RefCell;
use std::rc::Rc;
use std::sync::Arc;
use vcore::checks::c01::make_sched;
use vcore::explore;
use vcore::oracle::{self, Acc};
use vcore::rec::{self, Term};
use vcore::util::{self, Report, Rng};

fn strip_numbers(s: &str) -> String {
    let mut out = String::new();
    let mut in_num = false;
    for c in s.chars() {
        if c.is_ascii_digit() {
            if !in_num {
                out.push('#');
            }
            in_num = true;
        } else {
            in_num = false;
            out.push(c);
        }
    }
    out
}

fn op_kind(op: &diff::Op) -> String {
    let s = format!("{op:?}");
    strip_numbers(&s)
}

fn run_diff(prim: &diff::Prim, script: &[diff::Op], acc: &mut Acc) {
    let real = match std::panic::catch_unwind(|| diff::run_real(prim, script)) {
        Ok(r) => r,
        Err(p) => {
            acc.notes.push(format!("real tokio panicked on a script: {}", util::panic_message(&p)));
            acc.add("scripts_skipped_real_tokio_panicked", 1);
            return;
        }
    };
    let out: Arc<std::sync::Mutex<Vec<String>>> = Arc::new(std::sync::Mutex::new(vec![]));
    let (o2, p2, s2) = (out.clone(), prim.clone(), script.to_vec());
    let mut cfg = rec::base_config();
    cfg.max_steps = shuttle::MaxSteps::FailAfter(50_000);
    let rr = rec::run_streamed(shuttle::scheduler::RoundRobinScheduler::new(1), cfg, move || *o2.lock().unwrap() = diff::run_shuttle(&p2, &s2), |_f| {});
    acc.evaluations += 1;
    acc.add("diff_steps", script.len() as u64);
    acc.distinct.insert(util::hash64(format!("{:?}{:?}", prim, script).as_bytes()));
    let wit = |extra: serde_json::Value| json!({"primitive": format!("{:?}", prim), "script": format!("{:?}", script), "detail": extra});
    if rr.term != Term::Pass {
        acc.violation(
            &format!("script-fails-under-shuttle:{}", strip_numbers(&format!("{:?}", prim))),
            format!("a script that real tokio executes without blocking or panicking ended {:?} under the replacement", rr.term),
            wit(json!({"real": real})),
        );
        return;
    }
    let sh = out.lock().unwrap().clone();
    // which slots hold a future that has been polled (Pending) and not finished / cancelled
    let mut polled_pending = [false; 4];
    let mut send_pending = [false; 4];
    // Notify only: slots whose future was picked by notify_one and has not been polled since
    let mut notified_unobserved = [false; 4];
    let mut context = "";
    for (i, (a, b)) in real.iter().zip(sh.iter()).enumerate() {
        // bookkeeping on the reference run (before looking at step i's comparison)
        match &script[i] {
            diff::Op::Start(s, aop) => {
                if matches!(prim, diff::Prim::Notify) && notified_unobserved[*s] {
                    // dropping a future that notify_one had picked forwards the notification to another
                    // registered waiter; which one (tokio: the oldest, the replacement: any) is left open
                    notified_unobserved[*s] = false;
                    let others: Vec<usize> = (0..4).filter(|x| *x != *s && polled_pending[*x] && !notified_unobserved[*x]).collect();
                    if others.len() >= 2 {
                        acc.add("scripts_cut_at_ambiguous_notify_forwarding", 1);
                        return;
                    }
                    if let Some(o) = others.first() {
                        notified_unobserved[*o] = true;
                    }
                }
                if polled_pending[*s] && matches!(prim, diff::Prim::Notify) {
                    context = ":after-dropping-a-polled-waiter";
                }
                polled_pending[*s] = false;
                send_pending[*s] = matches!(aop, diff::AOp::Send(_)) && a == "started";
            }
            diff::Op::Cancel(s) => {
                if matches!(prim, diff::Prim::Notify) && notified_unobserved[*s] {
                    // dropping a future that notify_one had picked forwards the notification to another
                    // registered waiter; which one (tokio: the oldest, the replacement: any) is left open
                    notified_unobserved[*s] = false;
                    let others: Vec<usize> = (0..4).filter(|x| *x != *s && polled_pending[*x] && !notified_unobserved[*x]).collect();
                    if others.len() >= 2 {
                        acc.add("scripts_cut_at_ambiguous_notify_forwarding", 1);
                        return;
                    }
                    if let Some(o) = others.first() {
                        notified_unobserved[*o] = true;
                    }
                }
                if polled_pending[*s] && matches!(prim, diff::Prim::Notify) {
                    context = ":after-dropping-a-polled-waiter";
                }
                polled_pending[*s] = false;
                send_pending[*s] = false;
            }
            diff::Op::Poll(s) => {
                if a == "pending" {
                    polled_pending[*s] = true;
                } else {
                    polled_pending[*s] = false;
                    send_pending[*s] = false;
                    notified_unobserved[*s] = false;
                }
            }
            diff::Op::Now(diff::NOp::NotifyOne) if polled_pending.iter().filter(|x| **x).count() >= 2 => {
                // which of several registered waiters notify_one picks is left open (tokio: the
                // oldest, the replacement: any, chosen by the scheduler's random stream)
                acc.add("scripts_cut_at_ambiguous_notify_one", 1);
                return;
            }
            diff::Op::Now(diff::NOp::NotifyOne) if matches!(prim, diff::Prim::Notify) => {
                let waiters: Vec<usize> = (0..4).filter(|x| polled_pending[*x] && !notified_unobserved[*x]).collect();
                if waiters.len() == 1 {
                    notified_unobserved[waiters[0]] = true;
                }
            }
            diff::Op::Now(diff::NOp::NotifyWaiters) if matches!(prim, diff::Prim::Notify) => {
                // notify_waiters marks every registered waiter; those notifications are not forwarded
            }
            diff::Op::Now(diff::NOp::CloseSem) if polled_pending.iter().any(|x| *x) => {
                // whether an acquisition that was already handed its permits, but has not been polled
                // since, still succeeds after close() differs (tokio: error, replacement: ok); not judged
                acc.add("scripts_cut_at_close_with_queued_acquire", 1);
                return;
            }
            diff::Op::Now(diff::NOp::CloseRx) | diff::Op::Now(diff::NOp::DropRx) => {
                // tokio lets a sender that already owns a slot finish its send after close(); the
                // replacement fails it. What happens to senders queued at close time is not one of the
                // contracts judged here: stop comparing.
                if send_pending.iter().any(|x| *x) {
                    acc.add("scripts_cut_at_close_with_queued_senders", 1);
                    return;
                }
            }
            _ => {}
        }
        if a == "try_recv:empty" && b == "try_recv:disconnected" && script[..i].iter().any(|o| matches!(o, diff::Op::Now(diff::NOp::CloseRx))) {
            // tokio keeps answering Empty after close() while a sender still owns a slot (its message
            // may yet arrive); the replacement fails such senders at close() — the difference that is
            // already left open above — so for it nothing can arrive any more. Not judged.
            acc.add("scripts_cut_at_try_recv_after_close_with_outstanding_permit", 1);
            return;
        }
        if a != b {
            acc.violation(
                &format!("diverges-from-tokio:{}:{}:{}!={}{context}", strip_numbers(&format!("{:?}", prim)), op_kind(&script[i]), strip_numbers(a), strip_numbers(b)),
                format!("step {i} {:?}: real tokio answered {a:?}, the replacement {b:?}", script[i]),
                wit(json!({"step": i, "real": real, "shuttle": sh})),
            );
            return;
        }
    }
    if real.len() != sh.len() {
        acc.violation("script-length", format!("{} vs {} results", real.len(), sh.len()), wit(json!(null)));
    }
    if acc.samples.len() < 2 {
        acc.samples.push(json!({"kind": "differential", "primitive": format!("{:?}", prim), "script": format!("{:?}", script), "results": real}));
    }
}

fn term_kind(t: &Term) -> String {
    match t {
        Term::Pass => "pass".into(),
        Term::Deadlock(_) => "deadlock".into(),
        Term::StepBound => "step-bound".into(),
        Term::Panic(m) => {
            let m2: String = m.chars().take(60).collect();
            format!("panic:{}", strip_numbers(&m2))
        }
    }
}

fn run_scenario(name: &str, body: &scen::Body, mode: usize, seed: u64, iters: usize, acc: &mut Acc) {
    let fails: Rc<RefCell<Vec<(Term, Vec<u32>)>>> = Rc::new(RefCell::new(vec![]));
    let n: Rc<RefCell<u64>> = Rc::new(RefCell::new(0));
    let hashes: Rc<RefCell<Vec<u64>>> = Rc::new(RefCell::new(vec![]));
    let contract: Rc<RefCell<Vec<(String, String)>>> = Rc::new(RefCell::new(vec![]));
    let mut cfg = rec::base_config();
    cfg.max_steps = shuttle::MaxSteps::FailAfter(5_000);
    let b = body.clone();
    if mode == 0 {
        let (f2, n2, h2, c2) = (fails.clone(), n.clone(), hashes.clone(), contract.clone());
        let out = explore::enumerate(move || b(), cfg, iters as u64, move |f, term| {
            *n2.borrow_mut() += 1;
            if rec::nontrivial(&f.log) {
                h2.borrow_mut().push(rec::hash_choices(&f.log));
            }
            if term != Term::Pass && f2.borrow().len() < 3 {
                f2.borrow_mut().push((term, rec::choice_seq(&f.log)));
            }
            for x in rec::contract_check(&f.log, Some(&f.runtime_schedule)) {
                c2.borrow_mut().push(x);
            }
        });
        if out.complete {
            acc.add("scenarios_completely_enumerated", 1);
        }
    } else {
        let mut left = iters;
        let mut round = 0u64;
        while left > 0 && round < 4 {
            let (n2, h2, c2) = (n.clone(), hashes.clone(), contract.clone());
            let last: Rc<RefCell<Option<Vec<u32>>>> = Rc::new(RefCell::new(None));
            let l2 = last.clone();
            let b2 = b.clone();
            let rr = rec::run_streamed(make_sched(mode, seed.wrapping_add(round), left), cfg.clone(), move || b2(), move |f| {
                *n2.borrow_mut() += 1;
                if rec::nontrivial(&f.log) {
                    h2.borrow_mut().push(rec::hash_choices(&f.log));
                }
                for x in rec::contract_check(&f.log, Some(&f.runtime_schedule)) {
                    c2.borrow_mut().push(x);
                }
                *l2.borrow_mut() = Some(rec::choice_seq(&f.log));
            });
            if rr.term != Term::Pass {
                if let Term::Panic(m) = &rr.term {
                    if m.contains("did not exercise any concurrency") {
                        break;
                    }
                }
                fails.borrow_mut().push((rr.term.clone(), last.borrow().clone().unwrap_or_default()));
                round += 1;
                left = left.saturating_sub((*n.borrow() as usize).max(1));
                if fails.borrow().len() >= 2 {
                    break;
                }
            } else {
                break;
            }
        }
    }
    acc.evaluations += *n.borrow();
    acc.distinct.extend(hashes.borrow().iter().copied());
    acc.add("scenario_runs", 1);
    for (sig, what) in contract.borrow().iter().take(3) {
        acc.violation(&format!("C08:{sig}"), what.clone(), json!({"scenario": name}));
    }
    let spinning = name.contains("Try") || name.contains("Mixed");
    if let Some((term, choices)) = fails.borrow().first() {
        if spinning && *term == Term::StepBound {
            // retry loops around try_send/try_recv are spin loops: an unfair schedule legitimately runs into the bound
            acc.add("spin_scenarios_hit_step_bound", 1);
            return;
        }
        let what = match term {
            Term::Panic(m) => m.chars().take(400).collect::<String>(),
            t => format!("{t:?}"),
        };
        // the scenario name without its parameters identifies the contract that broke
        let short: String = name.split(' ').next().unwrap_or(name).to_string();
        acc.violation(
            &format!("scenario:{short}:{}", term_kind(term)),
            format!("scenario `{name}` (a correct tokio program) failed under the replacement: {what}"),
            json!({"scenario": name, "scheduler_mode": mode, "seed": seed, "choices": choices}),
        );
    }
    if acc.samples.len() < 4 {
        acc.samples.push(json!({"kind": "scenario", "name": name, "mode": mode, "executions": *n.borrow()}));
    }
}

fn c19(r: &mut Report) {
    let mut rng = Rng::new(r.seed ^ 0xC19);
    let prims = vec![
        diff::Prim::MpscBounded(1),
        diff::Prim::MpscBounded(2),
        diff::Prim::MpscUnbounded,
        diff::Prim::Semaphore(0),
        diff::Prim::Semaphore(2),
        diff::Prim::Mutex,
        diff::Prim::RwLock,
        diff::Prim::Notify,
        diff::Prim::Oneshot,
        diff::Prim::Watch,
    ];
    let per_prim = if r.quick() { 8_000 } else { 60_000 };
    let mut scripts: Vec<(diff::Prim, Vec<diff::Op>)> = vec![];
    for p in &prims {
        for _ in 0..per_prim {
            let len = 4 + rng.below(22);
            scripts.push((p.clone(), diff::gen_script(&mut rng, p, len)));
        }
    }
    let scen = scen::all();
    let mut sitems: Vec<(usize, usize, u64)> = vec![];
    for i in 0..scen.len() {
        for mode in [0usize, 8, 2] {
            let spinning = scen[i].0.contains("Try") || scen[i].0.contains("Mixed");
            if spinning && mode == 0 {
                continue; // an exhaustive enumeration of a spin loop never ends
            }
            // 0 = exhaustive enumeration (capped), 8 = random (make_sched 8 % 8 = 0), 2 = PCT depth 2
            sitems.push((i, mode, rng.next()));
        }
    }
    let n_scripts = scripts.len();
    let enum_cap = if r.quick() { 10_000 } else { 200_000 };
    let sample_iters = if r.quick() { 2_000 } else { 20_000 };
    let accs = oracle::parallel(n_scripts + sitems.len(), oracle::workers(), |i, acc| {
        if i < n_scripts {
            let (p, s) = &scripts[i];
            run_diff(p, s, acc);
        } else {
            let (si, mode, seed) = sitems[i - n_scripts];
            let (name, body) = &scen[si];
            run_scenario(name, body, mode, seed, if mode == 0 { enum_cap } else { sample_iters }, acc);
        }
    });
    for a in accs {
        a.merge_into(r);
    }
    r.rule = "(A) random scripts (4-25 steps: start an async operation in a slot, poll it once by hand, cancel it, or call a non-async method) over bounded/unbounded mpsc, Semaphore (incl. zero-permit requests), Mutex, RwLock (read/write/try/downgrade), Notify, oneshot and watch are executed against real tokio 1.x (no runtime) and against the replacement inside a one-task Shuttle execution; per-step results must be equal; (B) scheduled scenarios — correct tokio programs with built-in invariant checks (unique ids exactly once and per-sender FIFO across recv/try_recv/blocking_recv and send/try_send/blocking_send, len ≤ capacity, close/drop semantics, oneshot at most once, watch never backwards and ends on the latest value, Notify permit and waiter rules incl. a notified-then-dropped waiter, Mutex/RwLock exclusion, Mutex and Semaphore FIFO fairness, permit conservation, JoinSet/abort/timeout/sleep) — enumerated exhaustively up to a cap and sampled with random and PCT schedulers; any panic, deadlock or step-bound hit is a violation. evaluations = scripts + scenario executions; distinct_nontrivial = distinct scripts + distinct choice sequences with a real choice".into();
    r.assumptions = vec![
        "real tokio as shipped in the offline registry is the reference for the differential part; wake-ups are not compared, only results".into(),
        "entry points the replacement marks unimplemented (poll_recv, reserve, closed, broadcast) are not driven".into(),
    ];
}

fn main() {
    let args: Vec<String> = std::env::args().collect();
    let id = args.get(1).cloned().unwrap_or_default();
    let mut tier = std::env::var("VERIF_TIER").unwrap_or_else(|_| "quick".to_string());
    let mut i = 2;
    while i < args.len() {
        if args[i] == "--tier" && i + 1 < args.len() {
            tier = args[i + 1].clone();
            i += 1;
        }
        i += 1;
    }
    if id == "probe" {
        use rtokio::sync::mpsc;
        let (tx, mut rx) = mpsc::channel::<u32>(2);
        rx.close();
        println!("a) close, senders alive, empty: {:?}", rx.try_recv());
        let (tx2, mut rx2) = mpsc::channel::<u32>(2);
        tx2.try_send(1).unwrap();
        rx2.close();
        println!("b) one buffered, close: {:?} then {:?}", rx2.try_recv(), rx2.try_recv());
        let (tx3, mut rx3) = mpsc::channel::<u32>(2);
        let tx3b = tx3.clone();
        let mut fut = Box::pin(async move { tx3b.send(7).await });
        rx3.close();
        println!("c) unpolled send future alive, close: {:?}", rx3.try_recv());
        drop(fut.as_mut());
        drop(fut);
        println!("c2) after dropping it: {:?}", rx3.try_recv());
        drop(tx3);
        println!("c3) after dropping the last sender: {:?}", rx3.try_recv());
        drop(tx);
        drop(tx2);
        // the script of the thorough-tier divergence, minimised by deleting one step at a time
        use diff::{AOp, NOp, Op};
        let full: Vec<Op> = vec![
            Op::Start(0, AOp::Send(2)), Op::Now(NOp::TrySend(3)), Op::Cancel(0), Op::Start(0, AOp::Send(4)), Op::Now(NOp::TrySend(5)), Op::Start(1, AOp::Recv), Op::Start(0, AOp::Recv), Op::Poll(0),
            Op::Now(NOp::CloseRx), Op::Poll(2), Op::Now(NOp::TrySend(6)), Op::Cancel(1), Op::Start(2, AOp::Send(7)), Op::Now(NOp::TryRecv), Op::Poll(1), Op::Now(NOp::TryRecv), Op::Cancel(2), Op::Poll(1),
            Op::Now(NOp::CloseRx), Op::Cancel(2), Op::Now(NOp::TryRecv),
        ];
        let mut cur = full.clone();
        loop {
            let mut shrunk = false;
            for i in 0..cur.len() - 1 {
                let mut c = cur.clone();
                c.remove(i);
                let out = diff::run_real(&diff::Prim::MpscBounded(2), &c);
                if out.last().map(|s| s.as_str()) == Some("try_recv:empty") && c.iter().any(|o| matches!(o, Op::Now(NOp::CloseRx))) {
                    cur = c;
                    shrunk = true;
                    break;
                }
            }
            if !shrunk {
                break;
            }
        }
        println!("minimal script with real tokio answering try_recv:empty at the end: {:?}", cur);
        println!("real:    {:?}", diff::run_real(&diff::Prim::MpscBounded(2), &cur));
        return;
    }
    if id != "C19" {
        println!("usage: vtokio C19 [--tier quick|thorough]");
        std::process::exit(2);
    }
    util::quiet_stderr();
    util::silence_panics();
    std::env::set_var("VERIF_TIER", &tier);
    let mut r = Report::new("C19", &tier, util::seed_from_env());
    c19(&mut r);
    std::process::exit(r.finish());
}
