//! deterministic HashMap/HashSet: behave like std's on contents, and iterate in an order that is a
//! function of the operation history alone (across instances, executions and processes).
use dcoll::{HashMap, HashSet};
use serde_json::json;
use std::collections::{BTreeMap, BTreeSet};
use vcore::oracle::Acc;
use vcore::util::{hash64, Rng};

#[derive(Clone, Debug)]
pub enum COp {
    Insert(u32, u32),
    Remove(u32),
    Get(u32),
    EntryAdd(u32),
    Retain,
    Extend(Vec<(u32, u32)>),
    Clear,
    SetInsert(u32),
    SetRemove(u32),
}

pub fn gen_history(rng: &mut Rng, len: usize) -> Vec<COp> {
    (0..len)
        .map(|_| {
            let k = rng.below(40) as u32;
            match rng.below(12) {
                0..=4 => COp::Insert(k, rng.below(100) as u32),
                5 => COp::Remove(k),
                6 => COp::Get(k),
                7 => COp::EntryAdd(k),
                8 => {
                    if rng.chance(1, 4) {
                        COp::Retain
                    } else {
                        COp::Insert(k, 1)
                    }
                }
                9 => COp::Extend((0..rng.below(4)).map(|_| (rng.below(40) as u32, rng.below(9) as u32)).collect()),
                10 => COp::SetInsert(k),
                _ => {
                    if rng.chance(1, 10) {
                        COp::Clear
                    } else {
                        COp::SetRemove(k)
                    }
                }
            }
        })
        .collect()
}

pub struct Built {
    pub map: HashMap<u32, u32>,
    pub set: HashSet<u32>,
    pub results: Vec<String>,
}

/// Apply a history to fresh instances created through constructor `ctor` (0..5).
pub fn build(history: &[COp], ctor: usize) -> Built {
    let mut map: HashMap<u32, u32> = match ctor % 5 {
        0 => HashMap::new(),
        1 => HashMap::with_capacity(3),
        2 => HashMap::default(),
        3 => HashMap::from_iter(std::iter::empty()),
        _ => HashMap::from([(1000u32, 1u32); 0]),
    };
    let mut set: HashSet<u32> = match ctor % 5 {
        0 => HashSet::new(),
        1 => HashSet::with_capacity(3),
        2 => HashSet::default(),
        3 => HashSet::from_iter(std::iter::empty()),
        _ => HashSet::from([0u32; 0]),
    };
    let mut results = vec![];
    for op in history {
        let r = match op {
            COp::Insert(k, v) => format!("{:?}", map.insert(*k, *v)),
            COp::Remove(k) => format!("{:?}", map.remove(k)),
            COp::Get(k) => format!("{:?}", map.get(k)),
            COp::EntryAdd(k) => {
                *map.entry(*k).or_insert(0) += 1;
                format!("{:?}", map.get(k))
            }
            COp::Retain => {
                map.retain(|k, _| k % 3 != 0);
                format!("{}", map.len())
            }
            COp::Extend(v) => {
                map.extend(v.iter().cloned());
                format!("{}", map.len())
            }
            COp::Clear => {
                map.clear();
                set.clear();
                "()".into()
            }
            COp::SetInsert(k) => format!("{}", set.insert(*k)),
            COp::SetRemove(k) => format!("{}", set.remove(k)),
        };
        results.push(r);
    }
    Built { map, set, results }
}

fn reference(history: &[COp]) -> (BTreeMap<u32, u32>, BTreeSet<u32>, Vec<String>) {
    let mut map = BTreeMap::new();
    let mut set = BTreeSet::new();
    let mut results = vec![];
    for op in history {
        let r = match op {
            COp::Insert(k, v) => format!("{:?}", map.insert(*k, *v)),
            COp::Remove(k) => format!("{:?}", map.remove(k)),
            COp::Get(k) => format!("{:?}", map.get(k)),
            COp::EntryAdd(k) => {
                *map.entry(*k).or_insert(0) += 1;
                format!("{:?}", map.get(k))
            }
            COp::Retain => {
                map.retain(|k, _| k % 3 != 0);
                format!("{}", map.len())
            }
            COp::Extend(v) => {
                map.extend(v.iter().cloned());
                format!("{}", map.len())
            }
            COp::Clear => {
                map.clear();
                set.clear();
                "()".into()
            }
            COp::SetInsert(k) => format!("{}", set.insert(*k)),
            COp::SetRemove(k) => format!("{}", set.remove(k)),
        };
        results.push(r);
    }
    (map, set, results)
}

/// All iteration orders derivable from a built pair, through every way of producing a collection.
pub fn orders(b: &Built, other: &Built) -> Vec<(&'static str, Vec<u32>)> {
    let mut v: Vec<(&'static str, Vec<u32>)> = vec![];
    v.push(("map.iter", b.map.iter().map(|(k, _)| *k).collect()));
    v.push(("map.keys", b.map.keys().copied().collect()));
    v.push(("map.clone", b.map.clone().into_iter().map(|(k, _)| k).collect()));
    v.push(("map.from_iter(iter)", HashMap::from_iter(b.map.iter().map(|(k, v)| (*k, *v))).into_iter().map(|(k, _): (u32, u32)| k).collect()));
    let std_map: std::collections::HashMap<u32, u32> = b.map.iter().map(|(k, v)| (*k, *v)).collect();
    // From<std map> goes through an arbitrary (std, randomly keyed) order: only the content is fixed
    let from_std: HashMap<u32, u32> = HashMap::from(std_map);
    let mut fs: Vec<u32> = from_std.keys().copied().collect();
    fs.sort();
    v.push(("map.from(std).sorted", fs));
    v.push(("set.iter", b.set.iter().copied().collect()));
    v.push(("set.clone", b.set.clone().into_iter().collect()));
    v.push(("set|other", (&b.set | &other.set).into_iter().collect()));
    v.push(("set&other", (&b.set & &other.set).into_iter().collect()));
    v.push(("set^other", (&b.set ^ &other.set).into_iter().collect()));
    v.push(("set-other", (&b.set - &other.set).into_iter().collect()));
    if let Ok(js) = serde_json::to_string(&b.map) {
        if let Ok(back) = serde_json::from_str::<HashMap<u32, u32>>(&js) {
            v.push(("map.serde-roundtrip", back.into_iter().map(|(k, _)| k).collect()));
        }
    }
    if let Ok(js) = serde_json::to_string(&b.set) {
        if let Ok(back) = serde_json::from_str::<HashSet<u32>>(&js) {
            v.push(("set.serde-roundtrip", back.into_iter().collect()));
        }
    }
    v
}

pub fn order_fingerprint(history: &[COp], history2: &[COp]) -> Vec<(String, u64)> {
    let b = build(history, 0);
    let o = build(history2, 1);
    orders(&b, &o)
        .into_iter()
        .map(|(n, v)| (n.to_string(), hash64(&v.iter().flat_map(|x| x.to_le_bytes()).collect::<Vec<u8>>())))
        .collect()
}

pub fn check_history(seed: u64, len: usize, acc: &mut Acc) {
    let mut rng = Rng::new(seed);
    let h = gen_history(&mut rng, len);
    let h2 = gen_history(&mut rng, len / 2 + 1);
    acc.evaluations += 1;
    acc.distinct.insert(hash64(format!("{:?}", h).as_bytes()));
    let wit = |extra: serde_json::Value| json!({"history_seed": seed, "len": len, "history_prefix": format!("{:?}", &h[..h.len().min(12)]), "detail": extra});
    let (rm, rs, rres) = reference(&h);
    // (i) contents and results equal std's, through every constructor
    let mut first: Option<Vec<(&'static str, Vec<u32>)>> = None;
    for ctor in 0..5 {
        let b = build(&h, ctor);
        if b.results != rres {
            let i = b.results.iter().zip(rres.iter()).position(|(a, b)| a != b).unwrap_or(0);
            acc.violation("collection-result-differs-from-std", format!("constructor {ctor}: step {i} {:?} returned {}, std gives {}", h[i], b.results[i], rres[i]), wit(json!(null)));
        }
        let content: BTreeMap<u32, u32> = b.map.iter().map(|(k, v)| (*k, *v)).collect();
        let scontent: BTreeSet<u32> = b.set.iter().copied().collect();
        if content != rm || scontent != rs {
            acc.violation("collection-content-differs-from-std", format!("constructor {ctor}: contents differ from std's after the same history"), wit(json!(null)));
        }
        // (ii) order is a function of the history: identical across instances / constructors
        let o = build(&h2, (ctor + 1) % 5);
        let ords = orders(&b, &o);
        // set algebra contents equal std's
        let (_, rs2, _) = reference(&h2);
        for (name, v) in &ords {
            let as_set: BTreeSet<u32> = v.iter().copied().collect();
            let want: Option<BTreeSet<u32>> = match *name {
                "set|other" => Some(rs.union(&rs2).copied().collect()),
                "set&other" => Some(rs.intersection(&rs2).copied().collect()),
                "set^other" => Some(rs.symmetric_difference(&rs2).copied().collect()),
                "set-other" => Some(rs.difference(&rs2).copied().collect()),
                "set.serde-roundtrip" | "set.clone" | "set.iter" => Some(rs.clone()),
                _ => None,
            };
            if let Some(w) = want {
                if as_set != w {
                    acc.violation("set-algebra-content", format!("{name}: contents {:?} differ from std's {:?}", as_set, w), wit(json!(null)));
                }
            }
        }
        acc.add("iteration_orders_compared", ords.len() as u64);
        match &first {
            None => first = Some(ords),
            Some(f) => {
                for ((n1, o1), (_, o2)) in f.iter().zip(ords.iter()) {
                    // with_capacity legitimately changes the table size and thereby the order
                    if ctor == 1 {
                        continue;
                    }
                    if o1 != o2 {
                        acc.violation(
                            &format!("iteration-order-not-a-function-of-history:{n1}"),
                            format!("{n1}: two instances built by the same operation history iterate in different orders: {:?} vs {:?}", &o1[..o1.len().min(8)], &o2[..o2.len().min(8)]),
                            wit(json!({"constructor": ctor})),
                        );
                    }
                }
            }
        }
    }
    if acc.samples.len() < 2 {
        acc.samples.push(json!({"kind": "collections", "history_seed": seed, "len": len, "first_ops": format!("{:?}", &h[..h.len().min(8)])}));
    }
}
