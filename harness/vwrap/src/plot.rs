//! parking_lot replacement: lock_api contracts on every schedule.
use serde_json::json;
use splot::{Mutex, RwLock, RwLockReadGuard, RwLockUpgradableReadGuard, RwLockWriteGuard};
use std::cell::RefCell;
use std::rc::Rc;
use std::sync::{Arc, Mutex as StdMutex};
use vcore::checks::c01::make_sched;
use vcore::explore;
use vcore::oracle::Acc;
use vcore::rec::{self, body_event, Ev, Term};
use vcore::util::Rng;

#[derive(Clone, Debug, PartialEq)]
pub enum LOp {
    Read { fair: bool },
    TryRead,
    Write { fair: bool },
    TryWrite,
    /// upgradable read, then one of the follow-ups
    Upgradable(Follow),
    TryUpgradable(Follow),
    /// write, then downgrade to shared / to upgradable (and then the follow-up)
    WriteDowngrade,
    WriteDowngradeToUpgradable(Follow),
    MutexLock,
    MutexTryLock,
    Yield,
}

#[derive(Clone, Debug, PartialEq)]
pub enum Follow {
    Unlock,
    Upgrade,
    TryUpgrade,
    DowngradeToRead,
    YieldThenUpgrade,
}

const P_CALL: u32 = 5000; // a = op kind (downgrades only)
const P_RET: u32 = 5001;

#[derive(Default)]
struct Shadow {
    readers: usize,
    upgradable: usize,
    writer: usize,
    mutex: usize,
    bad: Vec<String>,
}

struct World {
    l: RwLock<u64>,
    m: Mutex<u64>,
    sh: StdMutex<Shadow>,
}

fn enter(w: &World, kind: &str) {
    let mut s = w.sh.lock().unwrap();
    match kind {
        "r" => {
            if s.writer > 0 {
                s.bad.push("shared access granted while the lock is held exclusively".into());
            }
            s.readers += 1;
        }
        "u" => {
            if s.writer > 0 {
                s.bad.push("upgradable access granted while the lock is held exclusively".into());
            }
            if s.upgradable > 0 {
                s.bad.push("two upgradable holders at once".into());
            }
            s.upgradable += 1;
        }
        "w" => {
            if s.writer > 0 || s.readers > 0 {
                let msg = format!("exclusive access granted while {} readers, {} upgradable, {} writers hold the lock", s.readers, s.upgradable, s.writer);
                s.bad.push(msg);
            } else if s.upgradable > 0 {
                // no reader, no writer, but an upgradable holder: it can only be waiting inside upgrade()
                s.bad.push("writer-admitted-during-upgrade: exclusive access granted to another task while a task holding the upgradable lock is waiting to upgrade".into());
            }
            s.writer += 1;
        }
        _ => {
            if s.mutex > 0 {
                s.bad.push("two holders of the parking_lot Mutex".into());
            }
            s.mutex += 1;
        }
    }
}
fn leave(w: &World, kind: &str) {
    let mut s = w.sh.lock().unwrap();
    match kind {
        "r" => s.readers -= 1,
        "u" => s.upgradable -= 1,
        "w" => s.writer -= 1,
        _ => s.mutex -= 1,
    }
}

fn follow_up<'a>(w: &'a World, g: RwLockUpgradableReadGuard<'a, u64>, f: &Follow) {
    let seen = *g;
    match f {
        Follow::Unlock => {
            leave(w, "u");
            drop(g);
        }
        Follow::Upgrade | Follow::YieldThenUpgrade => {
            if *f == Follow::YieldThenUpgrade {
                shuttle::thread::yield_now();
            }
            // the upgradable slot is held until the write lock is obtained: shadow moves u -> w at return
            let mut wg = RwLockUpgradableReadGuard::upgrade(g);
            {
                let mut s = w.sh.lock().unwrap();
                s.upgradable -= 1;
                if s.writer > 0 || s.readers > 0 {
                    let msg = format!("upgrade completed while {} readers / {} writers hold the lock", s.readers, s.writer);
                    s.bad.push(msg);
                }
                s.writer += 1;
                if *wg != seen {
                    s.bad.push(format!("the protected value changed from {seen} to {} across an upgrade: a writer overtook the upgrading task", *wg));
                }
            }
            *wg += 1;
            leave(w, "w");
            drop(wg);
        }
        Follow::TryUpgrade => match RwLockUpgradableReadGuard::try_upgrade(g) {
            Ok(mut wg) => {
                {
                    let mut s = w.sh.lock().unwrap();
                    s.upgradable -= 1;
                    if s.writer > 0 || s.readers > 0 {
                        s.bad.push("try_upgrade succeeded while other holders exist".into());
                    }
                    s.writer += 1;
                    if *wg != seen {
                        s.bad.push("the protected value changed across try_upgrade".into());
                    }
                }
                *wg += 1;
                leave(w, "w");
                drop(wg);
            }
            Err(g) => {
                leave(w, "u");
                drop(g);
            }
        },
        Follow::DowngradeToRead => {
            body_event(P_CALL, 1, 0);
            let rg = RwLockUpgradableReadGuard::downgrade(g);
            {
                let mut s = w.sh.lock().unwrap();
                s.upgradable -= 1;
                s.readers += 1;
            }
            body_event(P_RET, 1, 0);
            leave(w, "r");
            drop(rg);
        }
    }
}

fn run_task(w: &World, ops: &[LOp]) {
    for op in ops {
        match op {
            LOp::Read { fair } => {
                let g = w.l.read();
                enter(w, "r");
                let _ = *g;
                leave(w, "r");
                if *fair {
                    RwLockReadGuard::unlock_fair(g);
                } else {
                    drop(g);
                }
            }
            LOp::TryRead => {
                if let Some(g) = w.l.try_read() {
                    enter(w, "r");
                    leave(w, "r");
                    drop(g);
                }
            }
            LOp::Write { fair } => {
                let mut g = w.l.write();
                enter(w, "w");
                *g += 1;
                leave(w, "w");
                if *fair {
                    RwLockWriteGuard::unlock_fair(g);
                } else {
                    drop(g);
                }
            }
            LOp::TryWrite => {
                if let Some(mut g) = w.l.try_write() {
                    enter(w, "w");
                    *g += 1;
                    leave(w, "w");
                    drop(g);
                }
            }
            LOp::Upgradable(f) => {
                let g = w.l.upgradable_read();
                enter(w, "u");
                follow_up(w, g, f);
            }
            LOp::TryUpgradable(f) => {
                if let Some(g) = w.l.try_upgradable_read() {
                    enter(w, "u");
                    follow_up(w, g, f);
                }
            }
            LOp::WriteDowngrade => {
                let mut g = w.l.write();
                enter(w, "w");
                *g += 1;
                body_event(P_CALL, 2, 0);
                let rg = RwLockWriteGuard::downgrade(g);
                {
                    let mut s = w.sh.lock().unwrap();
                    s.writer -= 1;
                    s.readers += 1;
                }
                body_event(P_RET, 2, 0);
                leave(w, "r");
                drop(rg);
            }
            LOp::WriteDowngradeToUpgradable(f) => {
                let mut g = w.l.write();
                enter(w, "w");
                *g += 1;
                body_event(P_CALL, 3, 0);
                let ug = RwLockWriteGuard::downgrade_to_upgradable(g);
                {
                    let mut s = w.sh.lock().unwrap();
                    s.writer -= 1;
                    if s.upgradable > 0 {
                        s.bad.push("two upgradable holders after downgrade_to_upgradable".into());
                    }
                    s.upgradable += 1;
                }
                body_event(P_RET, 3, 0);
                follow_up(w, ug, f);
            }
            LOp::MutexLock => {
                let mut g = w.m.lock();
                enter(w, "m");
                *g += 1;
                shuttle::thread::yield_now();
                leave(w, "m");
                drop(g);
            }
            LOp::MutexTryLock => {
                if let Some(mut g) = w.m.try_lock() {
                    enter(w, "m");
                    *g += 1;
                    leave(w, "m");
                    drop(g);
                }
            }
            LOp::Yield => shuttle::thread::yield_now(),
        }
    }
}

pub fn gen_prog(rng: &mut Rng, size: usize) -> Vec<Vec<LOp>> {
    let nt = rng.range(2, 2 + size);
    let follow = |rng: &mut Rng| match rng.below(5) {
        0 => Follow::Unlock,
        1 => Follow::Upgrade,
        2 => Follow::TryUpgrade,
        3 => Follow::DowngradeToRead,
        _ => Follow::YieldThenUpgrade,
    };
    (0..nt)
        .map(|_| {
            let k = rng.range(1, 1 + size.min(2));
            (0..k)
                .map(|_| match rng.below(14) {
                    0 | 1 => LOp::Read { fair: rng.chance(1, 3) },
                    2 => LOp::TryRead,
                    3 | 4 => LOp::Write { fair: rng.chance(1, 3) },
                    5 => LOp::TryWrite,
                    6 | 7 | 8 => LOp::Upgradable(follow(rng)),
                    9 => LOp::TryUpgradable(follow(rng)),
                    10 => LOp::WriteDowngrade,
                    11 => LOp::WriteDowngradeToUpgradable(follow(rng)),
                    12 => {
                        if rng.chance(1, 2) {
                            LOp::MutexLock
                        } else {
                            LOp::MutexTryLock
                        }
                    }
                    _ => LOp::Yield,
                })
                .collect()
        })
        .collect()
}

pub fn corpus() -> Vec<(&'static str, Vec<Vec<LOp>>)> {
    vec![
        // an upgrade racing with a queued writer: the writer must not get in between
        ("upgrade-vs-writer", vec![vec![LOp::Upgradable(Follow::YieldThenUpgrade)], vec![LOp::Write { fair: false }], vec![LOp::Read { fair: false }]]),
        // downgrade_to_upgradable while another task waits for the upgradable slot
        ("downgrade-to-upgradable-vs-upgradable", vec![vec![LOp::WriteDowngradeToUpgradable(Follow::Unlock)], vec![LOp::Upgradable(Follow::Unlock)]]),
        ("two-upgraders", vec![vec![LOp::Upgradable(Follow::Upgrade)], vec![LOp::Upgradable(Follow::Upgrade)], vec![LOp::Read { fair: true }]]),
        ("try-variants", vec![vec![LOp::Write { fair: false }], vec![LOp::TryRead, LOp::TryWrite, LOp::TryUpgradable(Follow::TryUpgrade)], vec![LOp::Write { fair: true }]]),
    ]
}

pub fn check_prog(prog: &[Vec<LOp>], mode: usize, seed: u64, iters: usize, acc: &mut Acc, label: &str) {
    let wit = |extra: serde_json::Value| json!({"family": label, "program": format!("{:?}", prog), "mode": mode, "seed": seed, "detail": extra});
    let slot: Arc<StdMutex<Option<Arc<World>>>> = Arc::new(StdMutex::new(None));
    let p: Arc<Vec<Vec<LOp>>> = Arc::new(prog.to_vec());
    let s2 = slot.clone();
    let body = move || {
        let w = Arc::new(World { l: RwLock::new(0), m: Mutex::new(0), sh: StdMutex::new(Shadow::default()) });
        *s2.lock().unwrap() = Some(w.clone());
        let mut hs = vec![];
        for t in 1..p.len() {
            let (w, p) = (w.clone(), p.clone());
            hs.push(shuttle::thread::spawn(move || run_task(&w, &p[t])));
        }
        run_task(&w, &p[0]);
        for h in hs {
            h.join().unwrap();
        }
    };
    let results: Rc<RefCell<Vec<(Term, rec::ExecLog, Vec<String>)>>> = Rc::new(RefCell::new(vec![]));
    let n = Rc::new(RefCell::new(0u64));
    let hashes: Rc<RefCell<Vec<u64>>> = Rc::new(RefCell::new(vec![]));
    let (r2, n2, h2, sl) = (results.clone(), n.clone(), hashes.clone(), slot.clone());
    let handle: Rc<RefCell<dyn FnMut(rec::Finished, Term)>> = Rc::new(RefCell::new(move |f: rec::Finished, term: Term| {
        *n2.borrow_mut() += 1;
        if rec::nontrivial(&f.log) {
            h2.borrow_mut().push(rec::hash_choices(&f.log));
        }
        let bad = sl.lock().unwrap().take().map(|w| w.sh.lock().unwrap().bad.clone()).unwrap_or_default();
        let mut problems = bad;
        for (sig, what) in rec::contract_check(&f.log, Some(&f.runtime_schedule)) {
            problems.push(format!("C08:{sig}: {what}"));
        }
        // downgrades never wait: between the call and the return of a downgrade the task is offered at every decision
        let mut in_downgrade: Option<(usize, i64)> = None;
        for e in &f.log.events {
            match e {
                Ev::Body { task, tag: P_CALL, a, .. } => in_downgrade = Some((*task, *a)),
                Ev::Body { tag: P_RET, .. } => in_downgrade = None,
                Ev::Decision(d) => {
                    if let Some((t, kind)) = in_downgrade {
                        if !d.offered.iter().any(|o| o.0 == t) {
                            let k = ["", "upgradable->shared", "exclusive->shared", "exclusive->upgradable"][kind as usize];
                            problems.push(format!("downgrade-waited: a downgrade ({k}) blocked: its task was not runnable at a decision between call and return"));
                            in_downgrade = None;
                        }
                    }
                }
                _ => {}
            }
        }
        if term != Term::Pass || !problems.is_empty() {
            if r2.borrow().len() < 4 {
                r2.borrow_mut().push((term, f.log, problems));
            }
        }
    }));
    let mut cfg = rec::base_config();
    cfg.max_steps = shuttle::MaxSteps::FailAfter(5_000);
    if mode == 0 {
        let h = handle.clone();
        let out = explore::enumerate(body, cfg, iters as u64, move |f, t| (h.borrow_mut())(f, t));
        if out.complete {
            acc.add("lock_programs_completely_enumerated", 1);
        }
    } else {
        let mut left = iters;
        let mut round = 0;
        while left > 0 && round < 3 {
            let pending: Rc<RefCell<Option<rec::Finished>>> = Rc::new(RefCell::new(None));
            let pe = pending.clone();
            let h = handle.clone();
            let rr = rec::run_streamed(make_sched(mode, seed + round, left), cfg.clone(), body.clone(), move |f| {
                if std::thread::panicking() {
                    *pe.borrow_mut() = Some(f);
                } else {
                    (h.borrow_mut())(f, Term::Pass);
                }
            });
            if let Some(f) = pending.borrow_mut().take() {
                (handle.borrow_mut())(f, rr.term.clone());
            }
            if let Term::Panic(m) = &rr.term {
                if m.contains("did not exercise any concurrency") {
                    break;
                }
            }
            if rr.term == Term::Pass {
                break;
            }
            round += 1;
            left = left.saturating_sub(*n.borrow() as usize);
        }
    }
    acc.evaluations += *n.borrow();
    acc.distinct.extend(hashes.borrow().iter().copied());
    acc.add("lock_programs", 1);
    for (term, log, problems) in results.borrow().iter() {
        let choices = rec::choice_seq(log);
        for p in problems {
            let sig = if p.starts_with("downgrade-waited") {
                "downgrade-waited".to_string()
            } else if p.starts_with("C08:") {
                p.split(':').take(2).collect::<Vec<_>>().join(":")
            } else if p.contains("across an upgrade") {
                "upgrade-not-atomic".to_string()
            } else if p.starts_with("writer-admitted-during-upgrade") {
                "writer-admitted-during-upgrade".to_string()
            } else if p.contains("two upgradable") {
                "two-upgradable-holders".to_string()
            } else {
                "exclusion-broken".to_string()
            };
            acc.violation(&sig, p.clone(), wit(json!({"choices": choices})));
        }
        match term {
            Term::Pass => {}
            Term::Deadlock(_) => {
                // which kinds of operation were in flight?
                let has_dtu = prog.iter().flatten().any(|o| matches!(o, LOp::WriteDowngradeToUpgradable(_)));
                let sig = if has_dtu { "lock-program-deadlocked:with-downgrade_to_upgradable" } else { "lock-program-deadlocked" };
                acc.violation(sig, format!("a program in which every task holds at most one guard at a time was reported deadlocked: {:?}", term), wit(json!({"choices": choices})));
            }
            t => acc.violation("lock-program-failed", format!("a correct lock program ended {:?}", t), wit(json!({"choices": choices}))),
        }
    }
    if acc.samples.len() < 2 {
        acc.samples.push(json!({"kind": "parking_lot", "family": label, "program": format!("{:?}", prog), "executions": *n.borrow()}));
    }
}
