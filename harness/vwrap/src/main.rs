//! C20: parking_lot / dashmap / deterministic collections / rand / lazy_static replacements.
mod coll;
mod dash;
mod plot;

use serde_json::json;
use std::cell::RefCell;
use std::process::Command;
use std::rc::Rc;
use vcore::checks::c01::{first_diff, make_sched, signature};
use vcore::oracle::{self, Acc};
use vcore::rec::{self, body_event, Ev, Term};
use vcore::util::{self, Report, Rng};

slazy::lazy_static! {
    static ref LZ_WRAPPED: std::sync::atomic::AtomicUsize = {
        body_event(6000, 0, 0);
        std::sync::atomic::AtomicUsize::new(0)
    };
}

/// a body whose only nondeterminism goes through the rand replacement, plus a wrapped lazy static
fn rand_body() {
    use srand::distributions::{Distribution, Uniform};
    use srand::seq::SliceRandom;
    use srand::{Rng as _, RngCore, SeedableRng};
    let before = LZ_WRAPPED.fetch_add(1, std::sync::atomic::Ordering::SeqCst);
    body_event(6001, before as i64, 0);
    let a: u32 = srand::thread_rng().gen_range(0..1000);
    body_event(6002, a as i64, 0);
    let h = shuttle::thread::spawn(move || {
        let mut r = srand::rngs::StdRng::from_seed([7u8; 32]);
        let b = r.next_u64() % 1000;
        body_event(6003, b as i64, 0);
        let mut v = vec![1, 2, 3, 4, 5];
        v.shuffle(&mut r);
        body_event(6004, v[0] as i64 * 10 + v[4] as i64, 0);
        LZ_WRAPPED.fetch_add(1, std::sync::atomic::Ordering::SeqCst);
    });
    let u = Uniform::new(0u32, 50);
    let c = u.sample(&mut srand::thread_rng());
    body_event(6005, c as i64, 0);
    let d: bool = srand::random();
    body_event(6006, d as i64, 0);
    h.join().unwrap();
    body_event(6007, LZ_WRAPPED.load(std::sync::atomic::Ordering::SeqCst) as i64, 0);
}

fn rand_lazy_check(k: usize, seed: u64, iters: usize, acc: &mut Acc) {
    let collected: Rc<RefCell<Vec<rec::Finished>>> = Rc::new(RefCell::new(vec![]));
    let c2 = collected.clone();
    let rr = rec::run_streamed(make_sched(k, seed, iters), rec::base_config(), rand_body, move |f| c2.borrow_mut().push(f));
    let execs = std::mem::take(&mut *collected.borrow_mut());
    let wit = |extra: serde_json::Value| json!({"scheduler_kind": k, "seed": seed, "detail": extra});
    if let Term::Panic(msg) = &rr.term {
        if msg.contains("did not exercise any concurrency") {
            return;
        }
    }
    if rr.term != Term::Pass {
        acc.violation("rand-body-failed", format!("{:?}", rr.term), wit(json!(null)));
        return;
    }
    let mut values = std::collections::BTreeSet::new();
    for (i, f) in execs.iter().enumerate() {
        acc.evaluations += 1;
        if rec::nontrivial(&f.log) {
            acc.distinct.insert(rec::hash_choices(&f.log));
        }
        // per-execution re-initialisation of the wrapped lazy static
        let inits = f.log.events.iter().filter(|e| matches!(e, Ev::Body { tag: 6000, .. })).count();
        let before = f.log.events.iter().find_map(|e| if let Ev::Body { tag: 6001, a, .. } = e { Some(*a) } else { None });
        let fin = f.log.events.iter().find_map(|e| if let Ev::Body { tag: 6007, a, .. } = e { Some(*a) } else { None });
        if inits != 1 || before != Some(0) || fin != Some(2) {
            acc.violation(
                "lazy-static-not-per-execution",
                format!("iteration {i}: the wrapped lazy static was initialised {inits} times, held {:?} at first use and {:?} at the end (expected 1, 0, 2)", before, fin),
                wit(json!({"iteration": i})),
            );
        }
        for e in &f.log.events {
            if let Ev::Body { tag: 6002, a, .. } = e {
                values.insert(*a);
            }
        }
        // replay from the recorded schedule: identical draws
        if i < 4 || i % 7 == 0 {
            let text = shuttle_schedule_text(&f.runtime_schedule);
            let rep: Rc<RefCell<Vec<rec::ExecLog>>> = Rc::new(RefCell::new(vec![]));
            let r2 = rep.clone();
            let rr = rec::run_streamed(shuttle::scheduler::ReplayScheduler::new_from_encoded(&text), rec::base_config(), rand_body, move |f| r2.borrow_mut().push(f.log));
            acc.add("rand_replays", 1);
            let reps = rep.borrow();
            if rr.term != Term::Pass || reps.len() != 1 {
                acc.violation("rand-replay-failed", format!("replay ended {:?}", rr.term), wit(json!({"schedule": text})));
            } else if let Some((j, d)) = first_diff(&signature(&f.log), &signature(&reps[0])) {
                acc.violation("rand-replay-differs", format!("values drawn through the rand replacement differ on replay: event {j}: {d}"), wit(json!({"schedule": text})));
            }
        }
    }
    if execs.len() >= 20 && values.len() < 3 && k % 8 != 6 {
        acc.violation("rand-not-random", format!("{} executions drew only {} distinct first values", execs.len(), values.len()), wit(json!(null)));
    }
}

fn shuttle_schedule_text(s: &shuttle::scheduler::Schedule) -> String {
    // shuttle re-exports the engine's codec only through the engine crate; vcore links it
    vcore::rec::serialize(s)
}

fn c20(r: &mut Report) {
    let mut rng = Rng::new(r.seed ^ 0xC20);
    let n_lock = if r.quick() { 160 } else { 2000 };
    let n_dash = if r.quick() { 240 } else { 3000 };
    let n_hist = if r.quick() { 300 } else { 20_000 };
    let enum_cap = if r.quick() { 6_000 } else { 150_000 };
    let sample_iters = if r.quick() { 400 } else { 10_000 };
    #[derive(Clone)]
    enum Item {
        Lock(String, Vec<Vec<plot::LOp>>, usize, u64),
        Dash(String, Vec<Vec<dash::DOp>>, usize, u64),
        Hist(u64, usize),
        Rand(usize, u64),
        CrossProcess(u64),
    }
    let mut items: Vec<Item> = vec![];
    for (name, p) in plot::corpus() {
        for mode in [0usize, 8, 2] {
            items.push(Item::Lock(format!("corpus:{name}"), p.clone(), mode, rng.next()));
        }
    }
    for i in 0..n_lock {
        let p = plot::gen_prog(&mut rng, 1 + i % 2);
        let mode = [0usize, 0, 8, 2][i % 4];
        items.push(Item::Lock(format!("gen/{i}"), p, mode, rng.next()));
    }
    for (name, p) in dash::corpus() {
        for mode in [0usize, 8, 2] {
            items.push(Item::Dash(format!("corpus:{name}"), p.clone(), mode, rng.next()));
        }
    }
    for i in 0..n_dash {
        let p = dash::gen_prog(&mut rng, 1 + i % 3);
        let mode = [0usize, 0, 8, 2][i % 4];
        items.push(Item::Dash(format!("gen/{i}"), p, mode, rng.next()));
    }
    for i in 0..n_hist {
        items.push(Item::Hist(rng.next(), 5 + i % 120));
    }
    for k in [0usize, 2, 5, 6, 7] {
        items.push(Item::Rand(k, rng.next()));
    }
    for _ in 0..(if r.quick() { 6 } else { 60 }) {
        items.push(Item::CrossProcess(rng.next()));
    }
    let accs = oracle::parallel(items.len(), oracle::workers(), |i, acc| match &items[i] {
        Item::Lock(label, p, mode, seed) => plot::check_prog(p, *mode, *seed, if *mode == 0 { enum_cap } else { sample_iters }, acc, label),
        Item::Dash(label, p, mode, seed) => dash::check_prog(p, *mode, *seed, if *mode == 0 { enum_cap } else { sample_iters }, acc, label),
        Item::Hist(seed, len) => coll::check_history(*seed, *len, acc),
        Item::Rand(k, seed) => rand_lazy_check(*k, *seed, if *k % 8 == 7 { 2 } else { 40 }, acc),
        Item::CrossProcess(seed) => {
            // the same history in three fresh processes (different ASLR, hasher keys) must give identical orders
            let exe = vcore::util::self_exe();
            let mut outs = vec![];
            for _ in 0..3 {
                let o = Command::new(&exe).args(["c20order", &seed.to_string()]).output();
                outs.push(o.map(|o| String::from_utf8_lossy(&o.stdout).to_string()).unwrap_or_default());
            }
            acc.evaluations += 3;
            acc.add("cross_process_histories", 1);
            let parse = |s: &str| -> Vec<(String, String)> { s.lines().filter_map(|l| l.strip_prefix("ORDER ")).filter_map(|l| l.split_once('=')).map(|(a, b)| (a.to_string(), b.to_string())).collect() };
            let a = parse(&outs[0]);
            if a.is_empty() {
                acc.violation("order-child-failed", "the child process printing iteration orders produced nothing".into(), json!({"seed": seed}));
            }
            for other in &outs[1..] {
                let b = parse(other);
                for ((n1, h1), (_, h2)) in a.iter().zip(b.iter()) {
                    if h1 != h2 {
                        acc.violation(
                            &format!("iteration-order-differs-across-processes:{n1}"),
                            format!("{n1}: the same operation history iterates in a different order in another process"),
                            json!({"history_seed": seed}),
                        );
                    }
                }
            }
        }
    });
    for a in accs {
        a.merge_into(r);
    }
    r.rule = "parking_lot: generated programs over read/write/upgradable_read with upgrade, try_upgrade, all three downgrades, try-variants, fair unlocks and the Mutex (each task holds one guard at a time), enumerated exhaustively or sampled: shadow access matrix asserted at every acquisition, protected value unchanged across an upgrade, downgrading tasks offered at every decision between call and return, no deadlock/panic; DashMap/DashSet: generated multi-task programs over insert/get/remove/entry/alter/iter/iter_mut/retain/clear/try_get with guards held across yields, the operations in return order applied to a BTreeMap/BTreeSet must give the same results; deterministic collections: random histories through five constructors compared with std on every result and content, iteration orders (iter, keys, clone, from_iter, set | & ^ -, serde round trip) equal across instances and across three fresh processes; rand/lazy_static replacements: values drawn through thread_rng/StdRng/seq/distributions/random and a wrapped lazy_static, identical on replay from the recorded schedule and re-initialised per execution. evaluations = executions + histories; distinct_nontrivial = distinct choice sequences + distinct histories".into();
    r.assumptions = vec!["instances created with with_capacity are not compared for iteration order with instances created otherwise (different table size)".into()];
}

fn main() {
    let args: Vec<String> = std::env::args().collect();
    let id = args.get(1).cloned().unwrap_or_default();
    if id == "c20order" {
        let seed: u64 = args.get(2).and_then(|s| s.parse().ok()).unwrap_or(1);
        let mut rng = Rng::new(seed);
        let h = coll::gen_history(&mut rng, 60);
        let h2 = coll::gen_history(&mut rng, 30);
        for (n, hsh) in coll::order_fingerprint(&h, &h2) {
            println!("ORDER {n}={hsh:x}");
        }
        return;
    }
    if id == "sanit" {
        // single-process slice of the wrapper workloads for valgrind memcheck / ASan
        util::silence_panics();
        let n: usize = args.get(3).and_then(|s| s.parse().ok()).unwrap_or(40);
        let mut rng = Rng::new(20);
        let mut acc = Acc::default();
        for i in 0..n {
            let p = dash::gen_prog(&mut rng, 1 + i % 3);
            dash::check_prog(&p, [8usize, 2][i % 2], rng.next(), 20, &mut acc, "sanit");
            let p = plot::gen_prog(&mut rng, 1 + i % 2);
            plot::check_prog(&p, [8usize, 2][i % 2], rng.next(), 20, &mut acc, "sanit");
            coll::check_history(rng.next(), 5 + i % 60, &mut acc);
        }
        // guards and collected iterator items held while other tasks make the table grow and shrink
        use dash::DOp::*;
        let grow: Vec<dash::DOp> = (3..60u8).map(|k| Insert(k, k as i64)).chain((3..60u8).map(Remove)).collect();
        for holder in [vec![Insert(0, 1), Insert(1, 2), CollectIter, HoldRef(0)], vec![Insert(0, 1), CollectIterMutAdd, HoldMut(0), IterSum], vec![Insert(2, 1), HoldRef(2), CollectIter, RetainEven]] {
            let p = vec![holder, grow.clone(), vec![Insert(1, 5), Clear, Insert(2, 2)]];
            dash::check_prog(&p, 8, rng.next(), n, &mut acc, "sanit-grow");
        }
        rand_lazy_check(0, 3, 20, &mut acc);
        println!("SANIT-DONE {}", acc.evaluations);
        return;
    }
    let mut tier = std::env::var("VERIF_TIER").unwrap_or_else(|_| "quick".to_string());
    let mut i = 2;
    while i < args.len() {
        if args[i] == "--tier" && i + 1 < args.len() {
            tier = args[i + 1].clone();
            i += 1;
        }
        i += 1;
    }
    if id != "C20" {
        println!("usage: vwrap C20 [--tier quick|thorough]");
        std::process::exit(2);
    }
    util::quiet_stderr();
    util::silence_panics();
    std::env::set_var("VERIF_TIER", &tier);
    let mut r = Report::new("C20", &tier, util::seed_from_env());
    c20(&mut r);
    let n_sanit = if r.quick() { 30 } else { 400 };
    vcore::checks::sanit::attach(&mut r, "wrappers", n_sanit);
    if !r.quick() {
        vcore::checks::sanit::attach_asan(&mut r, "vwrap", "vwrap", "wrappers", 3000);
    }
    std::process::exit(r.finish());
}
