fn main() { println!("C20: not built yet"); std::process::exit(2); }
