//! DashMap/DashSet replacement: every operation is atomic; the map's contents always equal those of
//! a plain map under the same linear order of operations (the order in which operations return).
use sdash::{DashMap, DashSet};
use serde_json::json;
use std::cell::RefCell;
use std::collections::{BTreeMap, BTreeSet};
use std::rc::Rc;
use std::sync::{Arc, Mutex as StdMutex};
use vcore::checks::c01::make_sched;
use vcore::explore;
use vcore::oracle::Acc;
use vcore::rec::{self, Term};
use vcore::util::Rng;

#[derive(Clone, Debug, PartialEq)]
pub enum DOp {
    Insert(u8, i64),
    Get(u8),
    Remove(u8),
    Contains(u8),
    Len,
    Alter(u8),
    EntryOrInsert(u8, i64),
    EntryModifyOrInsert(u8, i64),
    IterSum,
    /// get a Ref, yield while holding it, read again: both reads must agree
    HoldRef(u8),
    /// get_mut, add 1, yield while holding, add 1
    HoldMut(u8),
    TryGet(u8),
    RemoveIfOdd(u8),
    RetainEven,
    Clear,
    IterMutAdd,
    /// collect the items of iter(), drop the iterator, yield, read the items again: the items keep the lock
    CollectIter,
    /// collect the items of iter_mut(), add 1 through each, yield, read them again
    CollectIterMutAdd,
    SetInsert(u8),
    SetRemove(u8),
    SetContains(u8),
    SetLen,
}

type Log = Arc<StdMutex<Vec<(usize, usize, String)>>>;

fn run_task(m: &DashMap<u8, i64>, s: &DashSet<u8>, t: usize, ops: &[DOp], log: &Log) {
    for (i, op) in ops.iter().enumerate() {
        let res: String = match op {
            DOp::Insert(k, v) => format!("{:?}", m.insert(*k, *v)),
            DOp::Get(k) => format!("{:?}", m.get(k).map(|r| *r.value())),
            DOp::Remove(k) => format!("{:?}", m.remove(k).map(|x| x.1)),
            DOp::Contains(k) => format!("{}", m.contains_key(k)),
            DOp::Len => format!("{}", m.len()),
            DOp::Alter(k) => {
                m.alter(k, |_, v| v + 10);
                "()".into()
            }
            DOp::EntryOrInsert(k, v) => {
                let r = m.entry(*k).or_insert(*v);
                format!("{}", *r.value())
            }
            DOp::EntryModifyOrInsert(k, v) => {
                let r = m.entry(*k).and_modify(|x| *x += 100).or_insert(*v);
                format!("{}", *r.value())
            }
            DOp::IterSum => {
                let mut n = 0;
                let mut sum = 0i64;
                for item in m.iter() {
                    n += 1;
                    sum += *item.value() + *item.key() as i64 * 1000;
                }
                format!("{n}:{sum}")
            }
            DOp::HoldRef(k) => match m.get(k) {
                Some(r) => {
                    let a = *r.value();
                    shuttle::thread::yield_now();
                    let b = *r.value();
                    if a != b {
                        format!("CHANGED-WHILE-HELD {a}->{b}")
                    } else {
                        format!("Some({a})")
                    }
                }
                None => "None".into(),
            },
            DOp::HoldMut(k) => match m.get_mut(k) {
                Some(mut r) => {
                    *r.value_mut() += 1;
                    let a = *r.value();
                    shuttle::thread::yield_now();
                    let b = *r.value();
                    *r.value_mut() += 1;
                    if a != b {
                        format!("CHANGED-WHILE-HELD {a}->{b}")
                    } else {
                        format!("Some({})", b + 1)
                    }
                }
                None => "None".into(),
            },
            DOp::TryGet(k) => match m.try_get(k) {
                sdash::TryResult::Present(r) => format!("Present({})", *r.value()),
                sdash::TryResult::Absent => "Absent".into(),
                sdash::TryResult::Locked => "Locked".into(),
            },
            DOp::RemoveIfOdd(k) => format!("{:?}", m.remove_if(k, |_, v| v % 2 != 0).map(|x| x.1)),
            DOp::RetainEven => {
                m.retain(|_, v| *v % 2 == 0);
                "()".into()
            }
            DOp::Clear => {
                m.clear();
                "()".into()
            }
            DOp::IterMutAdd => {
                for mut item in m.iter_mut() {
                    *item.value_mut() += 1;
                }
                "()".into()
            }
            DOp::CollectIter => {
                let items: Vec<_> = m.iter().collect();
                let read = |items: &Vec<sdash::mapref::multiple::RefMulti<'_, u8, i64>>| items.iter().map(|i| *i.value() + *i.key() as i64 * 1000).sum::<i64>();
                let a = read(&items);
                // the operation takes effect here (with no items nothing keeps the lock afterwards)
                log.lock().unwrap().push((t, i, format!("{}:{a}", items.len())));
                shuttle::thread::yield_now();
                let b = read(&items);
                if a != b {
                    log.lock().unwrap().push((t, usize::MAX, format!("CHANGED-WHILE-HELD {a}->{b} (items of iter() collected by task {t} op {i})")));
                }
                continue;
            }
            DOp::CollectIterMutAdd => {
                let mut items: Vec<_> = m.iter_mut().collect();
                for it in items.iter_mut() {
                    *it.value_mut() += 1;
                }
                let a: i64 = items.iter().map(|i| *i.value()).sum();
                log.lock().unwrap().push((t, i, "()".into()));
                shuttle::thread::yield_now();
                let b: i64 = items.iter().map(|i| *i.value()).sum();
                if a != b {
                    log.lock().unwrap().push((t, usize::MAX, format!("CHANGED-WHILE-HELD {a}->{b} (items of iter_mut() collected by task {t} op {i})")));
                }
                continue;
            }
            DOp::SetInsert(k) => format!("{}", s.insert(*k)),
            DOp::SetRemove(k) => format!("{:?}", s.remove(k)),
            DOp::SetContains(k) => format!("{}", s.contains(k)),
            DOp::SetLen => format!("{}", s.len()),
        };
        log.lock().unwrap().push((t, i, res));
    }
}

/// Apply the log to plain collections; return the first disagreement.
fn linearise(prog: &[Vec<DOp>], log: &[(usize, usize, String)]) -> Option<String> {
    let mut m: BTreeMap<u8, i64> = BTreeMap::new();
    let mut s: BTreeSet<u8> = BTreeSet::new();
    for (t, i, got) in log {
        if *i == usize::MAX {
            return Some(got.clone());
        }
        let op = &prog[*t][*i];
        let want: String = match op {
            DOp::Insert(k, v) => format!("{:?}", m.insert(*k, *v)),
            DOp::Get(k) | DOp::HoldRef(k) => format!("{:?}", m.get(k).copied()),
            DOp::Remove(k) => format!("{:?}", m.remove(k)),
            DOp::Contains(k) => format!("{}", m.contains_key(k)),
            DOp::Len => format!("{}", m.len()),
            DOp::Alter(k) => {
                if let Some(v) = m.get_mut(k) {
                    *v += 10;
                }
                "()".into()
            }
            DOp::EntryOrInsert(k, v) => format!("{}", *m.entry(*k).or_insert(*v)),
            DOp::EntryModifyOrInsert(k, v) => format!("{}", *m.entry(*k).and_modify(|x| *x += 100).or_insert(*v)),
            DOp::IterSum | DOp::CollectIter => format!("{}:{}", m.len(), m.iter().map(|(k, v)| *v + *k as i64 * 1000).sum::<i64>()),
            DOp::HoldMut(k) => match m.get_mut(k) {
                Some(v) => {
                    *v += 2;
                    format!("Some({})", *v)
                }
                None => "None".into(),
            },
            DOp::TryGet(k) => {
                if got == "Locked" {
                    "Locked".into()
                } else {
                    match m.get(k) {
                        Some(v) => format!("Present({v})"),
                        None => "Absent".into(),
                    }
                }
            }
            DOp::RemoveIfOdd(k) => {
                if m.get(k).map(|v| v % 2 != 0).unwrap_or(false) {
                    format!("{:?}", m.remove(k))
                } else {
                    "None".into()
                }
            }
            DOp::RetainEven => {
                m.retain(|_, v| *v % 2 == 0);
                "()".into()
            }
            DOp::Clear => {
                m.clear();
                "()".into()
            }
            DOp::IterMutAdd | DOp::CollectIterMutAdd => {
                for v in m.values_mut() {
                    *v += 1;
                }
                "()".into()
            }
            DOp::SetInsert(k) => format!("{}", s.insert(*k)),
            DOp::SetRemove(k) => format!("{:?}", if s.remove(k) { Some(*k) } else { None }),
            DOp::SetContains(k) => format!("{}", s.contains(k)),
            DOp::SetLen => format!("{}", s.len()),
        };
        if *got != want {
            return Some(format!("task {t} op {i} {:?} returned {got}, a plain map under the same order of operations gives {want}", op));
        }
    }
    None
}

/// Hand-written programs: every compound operation (check-then-act inside the map) racing with
/// writers of the same key that can change what the check saw.
pub fn corpus() -> Vec<(&'static str, Vec<Vec<DOp>>)> {
    use DOp::*;
    vec![
        ("remove_if-vs-insert", vec![vec![Insert(0, 1), RemoveIfOdd(0), Get(0)], vec![Insert(0, 2), Get(0)]]),
        ("remove_if-vs-iter_mut", vec![vec![Insert(0, 1), RemoveIfOdd(0), Get(0)], vec![IterMutAdd, Get(0)]]),
        ("remove_if-vs-hold_mut", vec![vec![Insert(0, 1), Insert(1, 3), RemoveIfOdd(0), Len], vec![HoldMut(0), RemoveIfOdd(1)], vec![IterMutAdd]]),
        ("entry-vs-remove", vec![vec![Insert(0, 4), EntryOrInsert(0, 7), Get(0)], vec![Remove(0), EntryModifyOrInsert(0, 3)]]),
        ("alter-vs-insert-remove", vec![vec![Insert(1, 1), Alter(1), Get(1)], vec![Insert(1, 5), Remove(1), Alter(1)]]),
        ("retain-vs-insert", vec![vec![Insert(0, 1), Insert(1, 2), RetainEven, Len], vec![Insert(2, 3), Insert(0, 4), IterSum]]),
        ("clear-vs-entry", vec![vec![Insert(0, 2), Clear, Len], vec![EntryOrInsert(0, 7), EntryModifyOrInsert(1, 3), Len]]),
        ("set-ops", vec![vec![SetInsert(0), SetRemove(0), SetLen], vec![SetInsert(0), SetContains(0), SetRemove(0)]]),
    ]
}

pub fn gen_prog(rng: &mut Rng, size: usize) -> Vec<Vec<DOp>> {
    let nt = rng.range(2, 2 + size.min(2));
    (0..nt)
        .map(|_| {
            let k = rng.range(1, 2 + size);
            (0..k)
                .map(|_| {
                    let key = rng.below(3) as u8;
                    match rng.below(22) {
                        0 | 1 | 2 => DOp::Insert(key, rng.below(9) as i64),
                        3 | 4 => DOp::Get(key),
                        5 => DOp::Remove(key),
                        6 => DOp::Contains(key),
                        7 => DOp::Len,
                        8 => DOp::Alter(key),
                        9 => DOp::EntryOrInsert(key, 7),
                        10 => DOp::EntryModifyOrInsert(key, 3),
                        11 => {
                            if rng.chance(1, 2) {
                                DOp::IterSum
                            } else if rng.chance(2, 3) {
                                DOp::CollectIter
                            } else {
                                DOp::CollectIterMutAdd
                            }
                        }
                        12 | 13 => DOp::HoldRef(key),
                        14 => DOp::HoldMut(key),
                        15 => DOp::TryGet(key),
                        16 => DOp::RemoveIfOdd(key),
                        17 => {
                            if rng.chance(1, 2) {
                                DOp::RetainEven
                            } else {
                                DOp::IterMutAdd
                            }
                        }
                        18 => {
                            if rng.chance(1, 3) {
                                DOp::Clear
                            } else {
                                DOp::Len
                            }
                        }
                        19 => DOp::SetInsert(key),
                        20 => DOp::SetRemove(key),
                        _ => {
                            if rng.chance(1, 2) {
                                DOp::SetContains(key)
                            } else {
                                DOp::SetLen
                            }
                        }
                    }
                })
                .collect()
        })
        .collect()
}

pub fn check_prog(prog: &[Vec<DOp>], mode: usize, seed: u64, iters: usize, acc: &mut Acc, label: &str) {
    let wit = |extra: serde_json::Value| json!({"family": label, "program": format!("{:?}", prog), "mode": mode, "seed": seed, "detail": extra});
    let p: Arc<Vec<Vec<DOp>>> = Arc::new(prog.to_vec());
    let slot: Arc<StdMutex<Option<Log>>> = Arc::new(StdMutex::new(None));
    let s2 = slot.clone();
    let p2 = p.clone();
    let body = move || {
        let m = Arc::new(DashMap::<u8, i64>::new());
        let s = Arc::new(DashSet::<u8>::new());
        let log: Log = Arc::new(StdMutex::new(vec![]));
        *s2.lock().unwrap() = Some(log.clone());
        let mut hs = vec![];
        for t in 1..p2.len() {
            let (m, s, p, log) = (m.clone(), s.clone(), p2.clone(), log.clone());
            hs.push(shuttle::thread::spawn(move || run_task(&m, &s, t, &p[t], &log)));
        }
        run_task(&m, &s, 0, &p2[0], &log);
        for h in hs {
            h.join().unwrap();
        }
    };
    let bad: Rc<RefCell<Vec<(String, String, Vec<u32>)>>> = Rc::new(RefCell::new(vec![]));
    let n = Rc::new(RefCell::new(0u64));
    let hashes: Rc<RefCell<Vec<u64>>> = Rc::new(RefCell::new(vec![]));
    let (b2, n2, h2, sl, p3) = (bad.clone(), n.clone(), hashes.clone(), slot.clone(), p.clone());
    let handle: Rc<RefCell<dyn FnMut(rec::Finished, Term)>> = Rc::new(RefCell::new(move |f: rec::Finished, term: Term| {
        *n2.borrow_mut() += 1;
        if rec::nontrivial(&f.log) {
            h2.borrow_mut().push(rec::hash_choices(&f.log));
        }
        let log = sl.lock().unwrap().take().map(|l| l.lock().unwrap().clone()).unwrap_or_default();
        let choices = rec::choice_seq(&f.log);
        if b2.borrow().len() >= 4 {
            return;
        }
        if let Some(msg) = linearise(&p3, &log) {
            let sig = if msg.contains("CHANGED-WHILE-HELD") { "value-changed-while-guard-held" } else { "not-linearisable" };
            b2.borrow_mut().push((sig.into(), msg, choices.clone()));
        }
        for (sig, what) in rec::contract_check(&f.log, Some(&f.runtime_schedule)) {
            b2.borrow_mut().push((format!("C08:{sig}"), what, choices.clone()));
        }
        match &term {
            Term::Pass => {}
            t => b2.borrow_mut().push(("dashmap-program-failed".into(), format!("a program in which every task holds at most one guard at a time ended {:?}", t), choices)),
        }
    }));
    let mut cfg = rec::base_config();
    cfg.max_steps = shuttle::MaxSteps::FailAfter(5_000);
    if mode == 0 {
        let h = handle.clone();
        let out = explore::enumerate(body, cfg, iters as u64, move |f, t| (h.borrow_mut())(f, t));
        if out.complete {
            acc.add("dashmap_programs_completely_enumerated", 1);
        }
    } else {
        let pending: Rc<RefCell<Option<rec::Finished>>> = Rc::new(RefCell::new(None));
        let pe = pending.clone();
        let h = handle.clone();
        let rr = rec::run_streamed(make_sched(mode, seed, iters), cfg, body, move |f| {
            if std::thread::panicking() {
                *pe.borrow_mut() = Some(f);
            } else {
                (h.borrow_mut())(f, Term::Pass);
            }
        });
        let last = pending.borrow_mut().take();
        if let Some(f) = last {
            (handle.borrow_mut())(f, rr.term.clone());
        }
    }
    acc.evaluations += *n.borrow();
    acc.distinct.extend(hashes.borrow().iter().copied());
    acc.add("dashmap_programs", 1);
    for (sig, what, choices) in bad.borrow().iter() {
        acc.violation(sig, what.clone(), wit(json!({"choices": choices})));
    }
    if acc.samples.len() < 2 {
        acc.samples.push(json!({"kind": "dashmap", "family": label, "program": format!("{:?}", prog), "executions": *n.borrow()}));
    }
}
